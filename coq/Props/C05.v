(* C05 — the cache never serves wrong bytes under crashes, truncation, concurrency.
   ONLY statements closed by [exact]; each followed by Print Assumptions.
   H is sha256: a variable; its collision-freedom on the stored contents (H_cf_on) is an explicit premise.
   gen_layout / gen_protocol are regenerated from lintcmd/cache/cache.go on every run. *)
From Coq Require Import List NArith ZArith Bool.
Import ListNotations.
Require Import Verif.Model.C05_Types Verif.Gen.C05_CacheLayout Verif.Model.C05_Codec Verif.Model.C05_FS.
Require Import Verif.Proofs.C05_Codec Verif.Proofs.C05_FSLemmas Verif.Proofs.C05_FS Verif.Proofs.C05.
Open Scope N_scope.

(* ---- finite obligations on the regenerated tables: the code still has the layout and the protocol shape
        that format_entry / parse_entry / pstep transcribe ---- *)
Theorem c05_layout_ok : layout_eqb gen_layout canonical_layout = true.
Proof. exact (eq_refl true). Qed.
Print Assumptions c05_layout_ok.

Theorem c05_protocol_ok : protocol_eqb gen_protocol canonical_protocol = true.
Proof. exact (eq_refl true). Qed.
Print Assumptions c05_protocol_ok.

(* ---- codec ---- *)
(* what putIndexEntry writes, get reads back *)
Theorem parse_format : forall k o sz tm, wf_id k -> wf_id o -> sz <= max_int64 -> tm <= max_int64 ->
  parse_entry k (format_entry k o sz tm) = Some (o, sz, tm).
Proof. exact parse_format_proof. Qed.
Print Assumptions parse_format.

(* every strict prefix of an entry (a torn or truncated index file) is a miss, under any key *)
Theorem parse_rejects_prefix : forall k o sz tm k' b, wf_id k -> wf_id o -> sz <= max_int64 -> tm <= max_int64 ->
  strict_prefix b (format_entry k o sz tm) -> parse_entry k' b = None.
Proof. exact parse_rejects_prefix_proof. Qed.
Print Assumptions parse_rejects_prefix.

Theorem parse_rejects_longer : forall k o sz tm k' c, wf_id k -> wf_id o -> sz <= max_int64 -> tm <= max_int64 ->
  c <> [] -> parse_entry k' (format_entry k o sz tm ++ c) = None.
Proof. exact parse_rejects_longer_proof. Qed.
Print Assumptions parse_rejects_longer.

(* ANY bytes that parse under key k embed (the hex of) k; hence an entry written for another key is a miss *)
Theorem parse_checks_embedded_id : forall k e r, parse_entry k e = Some r -> embedded_id e = Some k.
Proof. exact parse_checks_id. Qed.
Print Assumptions parse_checks_embedded_id.

Theorem parse_rejects_other_id : forall k k' o sz tm, wf_id k -> wf_id o -> sz <= max_int64 -> tm <= max_int64 ->
  k' <> k -> parse_entry k' (format_entry k o sz tm) = None.
Proof. exact parse_rejects_other_id_proof. Qed.
Print Assumptions parse_rejects_other_id.

(* ---- state machine ---- *)
Theorem inv_init : forall H, Inv H init_state.
Proof. exact inv_init. Qed.
Print Assumptions inv_init.

(* every step of every process (Put, Get, GetFile, GetBytes, Trim: one system call each), process creation,
   process death at any point, deletion of any file at any point, truncation of any file to any length while no
   descriptor is open on it, utimes and trim.txt surgery preserve the invariant *)
Theorem inv_step : forall H, (forall x, wf_id (H x)) -> forall s l s',
  Inv H s -> label_ok l = true -> step H s l = Some s' -> H_cf_on H (st_stored s') -> Inv H s'.
Proof. exact inv_step_proof. Qed.
Print Assumptions inv_step.

(* hence in every state reachable by any interleaving of any number of processes and faults *)
Theorem inv_reachable : forall H, (forall x, wf_id (H x)) -> forall s,
  reachable H s -> H_cf_on H (st_stored s) -> Inv H s.
Proof. exact inv_reachable_proof. Qed.
Print Assumptions inv_reachable.

(* GetFile: a returned path held, at the moment of return (snap), exactly a content stored under that key *)
Theorem getfile_sound : forall H, (forall x, wf_id (H x)) -> forall s p k o sz snap,
  reachable H s -> H_cf_on H (st_stored s) -> nth_error (st_procs s) p = Some (PDone (RFile k o sz snap)) ->
  exists x, In (k, x) (st_stored s) /\ o = H x /\ sz = xsize x /\ snap = Some x.
Proof. exact getfile_sound_proof. Qed.
Print Assumptions getfile_sound.

(* the snapshot is the content of the returned path in the very state in which GetFile returned *)
Theorem getfile_snapshot : forall H c fs pcv fs' k o sz snap,
  pstep H c fs pcv = Some (fs', PDone (RFile k o sz snap)) ->
  fs' = fs /\ snap = read_path fs (FD o) /\ pcv = PGFStat k o sz.
Proof. exact getfile_snapshot_proof. Qed.
Print Assumptions getfile_snapshot.

(* GetBytes: returned bytes are exactly a content stored under that key *)
Theorem getbytes_sound : forall H, (forall x, wf_id (H x)) -> forall s p k b,
  reachable H s -> H_cf_on H (st_stored s) -> nth_error (st_procs s) p = Some (PDone (RBytes k b)) ->
  In (k, b) (st_stored s).
Proof. exact getbytes_sound_proof. Qed.
Print Assumptions getbytes_sound.

Theorem get_sound : forall H, (forall x, wf_id (H x)) -> forall s p k o sz tm,
  reachable H s -> H_cf_on H (st_stored s) -> nth_error (st_procs s) p = Some (PDone (RGet k o sz tm)) ->
  exists x, In (k, x) (st_stored s) /\ o = H x /\ sz = xsize x.
Proof. exact get_sound_proof. Qed.
Print Assumptions get_sound.

(* one writer killed after ANY number of its steps (cs arbitrary), then any lookup with any chunking: a hit is x *)
Theorem crash_anywhere : forall H, (forall x, wf_id (H x)) -> forall k x cs cs' o s r,
  (forall y, H y = H x -> y = x) ->
  match o with OpPut _ _ => False | _ => True end ->
  exec H init_state (LSpawn (OpPut k x) :: map (LStep 0) cs ++ LCrash 0 :: LSpawn o :: map (LStep 1) cs') = Some s ->
  nth_error (st_procs s) 1 = Some (PDone r) ->
  single_sound H k x r.
Proof. exact crash_anywhere_proof. Qed.
Print Assumptions crash_anywhere.

Theorem trunc_delete_safe : forall H, (forall x, wf_id (H x)) -> forall s p n now s',
  Inv H s -> H_cf_on H (st_stored s) ->
  (step H s (LTrunc p n now) = Some s' \/ step H s (LDelete p) = Some s') -> Inv H s'.
Proof. exact trunc_delete_safe_proof. Qed.
Print Assumptions trunc_delete_safe.

(* whatever is readable at <H x>-d at any time is a prefix of x (what a caller of GetFile can see later) *)
Theorem data_path_prefix : forall H s k x d,
  Inv H s -> H_cf_on H (st_stored s) -> In (k, x) (st_stored s) ->
  read_path (st_fs s) (FD (H x)) = Some d -> prefix d x.
Proof. exact data_path_prefix_proof. Qed.
Print Assumptions data_path_prefix.

(* re-putting a content (under any key) never un-commits an entry committed for it: no O_TRUNC, same bytes *)
Theorem same_content_idempotent : forall H, (forall x, wf_id (H x)) -> forall s p c s' pcv k x,
  Inv H s -> H_cf_on H (st_stored s) -> committed H (st_fs s) k x ->
  nth_error (st_procs s) p = Some pcv -> put_content pcv = Some x ->
  step H s (LStep p c) = Some s' -> committed H (st_fs s') k x.
Proof. exact same_content_idempotent_proof. Qed.
Print Assumptions same_content_idempotent.

(* Put post-condition on the writer's side: when copyFile has written its last byte, the file it wrote holds
   exactly x - whatever other processes did meanwhile (the harness checks on the real cache that the file named by
   OutputFile(out) holds x when Put has returned, also for goroutines sharing one cache handle) *)
Theorem put_copy_complete : forall H, (forall x, wf_id (H x)) -> forall s p c s' k x i off,
  Inv H s -> H_cf_on H (st_stored s) -> nth_error (st_procs s) p = Some (PPutCopy k x i off) ->
  step H s (LStep p c) = Some s' -> nth_error (st_procs s') p = Some (PPutClose k x i) ->
  exists f', get_file (st_fs s') i = Some f' /\ fdata f' = x.
Proof. exact put_copy_complete_proof. Qed.
Print Assumptions put_copy_complete.

(* the quiescence premise is necessary: with ONE truncation of the data file while its writer holds it open,
   GetFile returns the path of a file whose content was never stored (replayed on the implementation by the
   histories of kind midwrite-truncate) *)
Theorem midwrite_truncate_refuted :
  exists (H : list N -> list N) (ls : list label) (s : state) (p : nat) (k o : list N) (sz : N) (y : list N),
    (forall x, wf_id (H x)) /\ exec H init_state ls = Some s /\ H_cf_on H (st_stored s) /\
    length (filter (fun l => negb (label_ok l)) ls) = 1%nat /\
    nth_error (st_procs s) p = Some (PDone (RFile k o sz (Some y))) /\
    ~ In (k, y) (st_stored s).
Proof. exact midwrite_truncate_refuted_proof. Qed.
Print Assumptions midwrite_truncate_refuted.
