(* C18 — IR program build is idempotent and safe under parallel building (partial: race freedom of the
   Go code itself is explored with the race detector, not proved).
   ONLY statements closed by [exact]; each followed by Print Assumptions.
   gen_* are regenerated from /repo/go/ir on every run, so [eq_refl] below is re-checked against the
   current source. *)
From Coq Require Import List Arith Bool String.
Import ListNotations.
Require Import Verif.Model.C18_Types Verif.Gen.C18_LockTraces Verif.Model.C18 Verif.Model.C18_Sync
  Verif.Model.C18_Check Verif.Proofs.C18_Task Verif.Proofs.C18_Sync Verif.Proofs.C18_Check.

(* ---- finite obligations on the regenerated tables ---- *)

(* every read/write of a shared memo table of go/ir occurs between Lock and Unlock of its mutex *)
Theorem lock_discipline_holds : lock_discipline gen_guards gen_traces = true.
Proof. exact (eq_refl true). Qed.
Print Assumptions lock_discipline_holds.

(* each function takes a given mutex once: its lookup and its create are in ONE critical section *)
Theorem single_section_holds : single_section gen_traces = true.
Proof. exact (eq_refl true). Qed.
Print Assumptions single_section_holds.

(* every guarded table is both accessed and written in the extracted traces *)
Theorem tables_covered_holds : tables_covered gen_guards gen_traces = true.
Proof. exact (eq_refl true). Qed.
Print Assumptions tables_covered_holds.

(* Package.Build is exactly buildOnce.Do(p.build) with buildOnce a sync.Once, and p.build has no other user *)
Theorem once_guard_shape : once_guard_ok gen_build_stmts gen_build_recv gen_once_field_type gen_build_refs = true.
Proof. exact (eq_refl true). Qed.
Print Assumptions once_guard_shape.

(* builder.iterate builds every enqueued function, then marks its task done, then waits *)
Theorem iterate_shape : iterate_ok gen_iterate_stmts gen_buildfunction_calls = true.
Proof. exact (eq_refl true). Qed.
Print Assumptions iterate_shape.

(* go/ir/task.go is, statement for statement, the text the task-graph model below transcribes *)
Theorem task_shape : task_source_ok gen_task_source = true.
Proof. exact (eq_refl true). Qed.
Print Assumptions task_shape.

(* ---- task graph: every label sequence = every interleaving of any number of builders and waiters ---- *)

(* When wait x has returned (state s1), then in ANY later state s2: every task reachable from x through
   the edge relation of s2 was already done in s1, and was already reachable in s1. *)
Theorem wait_closed :
  forall tr1 tr2 s1 s2 w x,
    run init tr1 = Some s1 -> returned s1 w x -> run s1 tr2 = Some s2 ->
    forall y, reach s2 x y -> done s1 y = true /\ reach s1 x y.
Proof. exact wait_closed_final. Qed.
Print Assumptions wait_closed.

(* ... and every shared function enqueued by the builder of such a task is fully built. *)
Theorem wait_closed_shared_built :
  forall tr s w x, run init tr = Some s -> returned s w x ->
    forall y f, reach s x y -> In (f, y) (fns s) -> built s f = true.
Proof. exact wait_closed_built_any. Qed.
Print Assumptions wait_closed_shared_built.

(* done is monotone and the edges of a done task never change (the two facts wait relies on) *)
Theorem done_monotone_edges_frozen :
  forall tr s s' t, run s tr = Some s' -> done s t = true -> done s' t = true /\ edges s' t = edges s t.
Proof. exact (fun tr s s' t H D => conj (run_done_mono tr s s' t H D) (run_edges_frozen tr s s' t H D)). Qed.
Print Assumptions done_monotone_edges_frozen.

(* a waiter is never stuck: any enqueued, unprocessed task that is done can be processed, and when none is
   left the wait can return *)
Theorem wait_progress :
  forall tr s w ws, run init tr = Some s -> waiter s w = Some ws -> w_closed ws = false ->
    (forall u, pending ws u = true -> done s u = true -> guard s (LWaitObserve w u (edges s u)) = true) /\
    ((forall u, pending ws u = false) -> guard s (LWaitClosed w (w_root ws)) = true).
Proof. exact wait_progress_any. Qed.
Print Assumptions wait_progress.

(* the number of loop iterations of one wait is bounded by the number of tasks reachable from its root *)
Theorem wait_work_bounded :
  forall tr s w ws univ, run init tr = Some s -> waiter s w = Some ws ->
    (forall u, reach s (w_root ws) u -> In u univ) ->
    List.length (w_seen ws) <= List.length (w_work ws) /\ List.length (w_work ws) <= List.length univ.
Proof. exact wait_work_bounded_any. Qed.
Print Assumptions wait_work_bounded.

(* a shared function is enqueued (hence created for building) at most once *)
Theorem shared_enqueued_once :
  forall tr s, run init tr = Some s -> NoDup (map fst (fns s)).
Proof. exact built_once_any. Qed.
Print Assumptions shared_enqueued_once.

(* the executable property predicate evaluated on recorded logs is consistent with the theorems: a log that
   is a run of the model has no violation *)
Theorem valid_log_no_violation :
  forall tr s, run init tr = Some s -> trace_violations tr = [].
Proof. exact valid_log_no_violation_any. Qed.
Print Assumptions valid_log_no_violation.

(* ---- once-guard: however many Build calls interleave, the body runs at most once, and a call that
        has returned sees the body completed exactly once ---- *)
Theorem build_idempotent :
  forall tr s, orun oinit tr = Some s ->
    o_runs s <= 1 /\ forall c, o_pc s c = CReturned -> o_phase s = ODone /\ o_runs s = 1.
Proof. exact build_idempotent_any. Qed.
Print Assumptions build_idempotent.

(* ---- memo table: in any interleaving of lookup-or-create sections under the lock, each key is created
        at most once, every completed lookup of k returns THE object created for k (exactly one
        creation), and two lookups of the same key return the same object ---- *)
Theorem created_once :
  forall tr s, mrun true minit tr = Some s ->
    (forall k, creations s k <= 1) /\
    (forall t k v, In (t, k, v) (m_results s) -> creations s k = 1 /\ In (k, v) (m_created s)) /\
    (forall t1 t2 k v1 v2, In (t1, k, v1) (m_results s) -> In (t2, k, v2) (m_results s) -> v1 = v2).
Proof. exact created_once_any. Qed.
Print Assumptions created_once.
