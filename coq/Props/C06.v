(* C06 — deterministic, schedule-independent linting: the scheduler of lintcmd/runner as a transition system.
   ONLY statements closed by [exact]; each followed by Print Assumptions.  All theorems quantify over ALL
   executions (transition sequences of any length), all action graphs, all semaphore capacities >= 1.
   [gen_*] are regenerated from /repo on every run, so [eq_refl] below is re-checked against the source. *)
From Coq Require Import List Arith Bool ZArith Permutation.
Import ListNotations.
Require Import Verif.Model.C06_Map Verif.Model.C06 Verif.Model.C06_Out Verif.Gen.C06_SortKey.
Require Import Verif.Proofs.C06_Base Verif.Proofs.C06_Level Verif.Proofs.C06_Global Verif.Proofs.C06_Out Verif.Proofs.C06_Indep.

(* ---- finite obligations on what the translator extracted from the source ---- *)
(* DecrementPending is an atomic add compared with zero (the model's EDec is one atomic step) *)
Theorem c06_atomic_decrement : gen_atomic_decrement = true.
Proof. exact (eq_refl true). Qed.
Print Assumptions c06_atomic_decrement.

(* genericHandle releases its token before it decrements/sends (the model's handler phases) *)
Theorem c06_release_before_triggers : gen_release_before_triggers = true.
Proof. exact (eq_refl true). Qed.
Print Assumptions c06_release_before_triggers.

(* the sort of printDiagnostics compares every field that all formatters print *)
Theorem c06_sort_key_covers_printed : key_covers_printed gen_sort_key = true.
Proof. exact (eq_refl true). Qed.
Print Assumptions c06_sort_key_covers_printed.

(* ---- the checker used on recorded traces is the transition relation ---- *)
Theorem valid_trace_sound :
  forall Rp Ra GG cap (tr : list (glabel Rp Ra)),
    valid_trace Rp Ra GG cap tr = true ->
    1 <= cap /\ wf_dag (gtopd GG) /\
    exists s, grun_rel Rp Ra false GG cap tr s /\ gfinal s = true /\ bad (gtop s) = false /\ gover s = false.
Proof. exact C06_Global.valid_trace_sound. Qed.
Print Assumptions valid_trace_sound.

(* the variant evaluated on the recorded traces (well-formedness of each distinct analyzer graph computed once) *)
Theorem valid_trace_fast_sound :
  forall Rp Ra top tabs assign cap (tr : list (glabel Rp Ra)),
    valid_trace_fast Rp Ra top tabs assign cap tr = true ->
    valid_trace Rp Ra (gdag_of_shared top tabs assign) cap tr = true.
Proof. exact C06_Global.valid_trace_fast_sound. Qed.
Print Assumptions valid_trace_fast_sound.

(* ... and the one that additionally compares, at every start, the model's skip decision with the implementation's *)
Theorem valid_trace_skips_sound :
  forall Rp Ra top tabs assign cap (atr : list (glabel Rp Ra * bool)),
    valid_trace_skips Rp Ra top tabs assign cap atr = true ->
    valid_trace Rp Ra (gdag_of_shared top tabs assign) cap (map fst atr) = true.
Proof. exact C06_Global.valid_trace_skips_sound. Qed.
Print Assumptions valid_trace_skips_sound.

Theorem wf_dagb_sound : forall G, wf_dagb G = true -> wf_dag G.
Proof. exact C06_Base.wf_dagb_sound. Qed.
Print Assumptions wf_dagb_sound.

(* ---- exec_once ---- *)
(* in EVERY execution of the two-level system every package action and every analyzer action of every package
   is started at most once, and no action is ever handed to a second handler ... *)
Theorem exec_once :
  forall Rp Ra strict GG cap, wf_dag (gtopd GG) -> 1 <= cap ->
  forall tr s, grun_rel Rp Ra strict GG cap tr s ->
    (forall a, starts Rp a (proj_top Rp Ra tr) <= 1) /\
    (forall p a, starts Ra a (proj_in Rp Ra p tr) <= 1) /\
    bad (gtop s) = false /\ (forall p si, get (ginner s) p = Some si -> bad si = false).
Proof. exact C06_Global.exec_once_global. Qed.
Print Assumptions exec_once.

(* ... and exactly once in every maximal one *)
Theorem exec_once_maximal :
  forall Rp Ra strict GG cap, wf_dag (gtopd GG) ->
  forall tr s, grun_rel Rp Ra strict GG cap tr s -> gfinal s = true ->
    forall a, In a (nodes (gtopd GG)) -> starts Rp a (proj_top Rp Ra tr) = 1.
Proof. exact C06_Global.exec_once_final_global. Qed.
Print Assumptions exec_once_maximal.

(* the same for the analyzers of one package: every maximal execution of an analyzer level *)
Theorem exec_once_maximal_level :
  forall R top strict G, wf_dag G ->
  forall tr s, lrun R top strict G tr s -> final s = true -> forall a, In a (nodes G) -> starts R a tr = 1.
Proof. exact C06_Level.exec_once_final_level. Qed.
Print Assumptions exec_once_maximal_level.

(* ---- deps_first ---- *)
Theorem deps_first :
  forall Rp Ra strict GG cap, wf_dag (gtopd GG) -> 1 <= cap ->
  forall tr s, grun_rel Rp Ra strict GG cap tr s ->
    (forall a s', gstep strict GG cap s (GTop (EStart a)) = Some s' ->
       forall d, In d (deps (gtopd GG) a) -> get (dn (gtop s)) d = true) /\
    (forall p a s' si, gstep strict GG cap s (GIn p (EStart a)) = Some s' -> get (ginner s) p = Some si ->
       forall d, In d (deps (ginnerd GG p) a) -> get (dn si) d = true).
Proof. exact C06_Global.deps_first_global. Qed.
Print Assumptions deps_first.

(* ---- no_deadlock: every reachable non-final state has an enabled transition, for every capacity >= 1
        (blocking Acquire and unbuffered queue at the package level, AcquireMaybe-or-inline below) ---- *)
Theorem no_deadlock :
  forall Rp Ra strict GG cap, wf_dag (gtopd GG) -> 1 <= cap ->
  forall tr s, grun_rel Rp Ra strict GG cap tr s -> gfinal s = false ->
    exists l s', gstep strict GG cap s l = Some s'.
Proof. exact C06_Global.no_deadlock_global. Qed.
Print Assumptions no_deadlock.

(* the buffered queue of runAnalyzers (capacity len(all)) never blocks a sender: it never holds more messages
   than there are analyzer actions *)
Theorem queue_never_full :
  forall R top strict G, wf_dag G ->
  forall tr s, lrun R top strict G tr s -> length (queue s) <= length (nodes G).
Proof. exact C06_Level.queue_bound_run. Qed.
Print Assumptions queue_never_full.

(* the semaphore never exceeds its capacity; free tokens + handlers holding one = capacity *)
Theorem tokens_conserved :
  forall Rp Ra strict GG cap, wf_dag (gtopd GG) -> 1 <= cap ->
  forall tr s, grun_rel Rp Ra strict GG cap tr s ->
    gover s = false /\
    exists hold, NoDup hold /\ gfree s + length hold = cap /\ forall x, In x hold <-> holdsg Rp Ra s x = true.
Proof. exact C06_Global.tokens_conserved. Qed.
Print Assumptions tokens_conserved.

(* ---- confluence: all maximal executions of a level end with the same result and failed maps, namely the
        denotation computed without any scheduler (exec: a function of the action and its deps' results) ---- *)
Theorem confluence_level :
  forall R top strict G, wf_dag G ->
  forall exec : nat -> (nat -> option R) -> option R,
    (forall a m m', (forall d, In d (deps G a) -> m d = m' d) -> exec a m = exec a m') ->
  forall tr1 s1 tr2 s2, crun R top strict G exec tr1 s1 -> final s1 = true -> crun R top strict G exec tr2 s2 -> final s2 = true ->
    forall a, In a (nodes G) -> get (res s1) a = get (res s2) a /\ get (failed s1) a = get (failed s2) a.
Proof. exact C06_Level.confluence_level. Qed.
Print Assumptions confluence_level.

Theorem final_is_denotation_level :
  forall R top strict G, wf_dag G ->
  forall exec : nat -> (nat -> option R) -> option R,
    (forall a m m', (forall d, In d (deps G a) -> m d = m' d) -> exec a m = exec a m') ->
  forall tr s, crun R top strict G exec tr s -> final s = true ->
    forall a, In a (nodes G) -> get (res s) a = den G exec a /\ get (failed s) a = isNone (den G exec a).
Proof. exact C06_Level.final_den. Qed.
Print Assumptions final_is_denotation_level.

(* the two-level system: every maximal execution ends with the same package results and failed flags, the
   denotation of the package graph in which a package's result is computed from the denotation of its analyzer graph *)
Theorem final_is_denotation :
  forall Rp Ra strict GG cap, wf_dag (gtopd GG) -> 1 <= cap ->
  forall exec_an need fin fout, results_local GG exec_an need fin fout ->
  forall tr s, gcrun Rp Ra strict GG cap exec_an need fin fout tr s -> gfinal s = true ->
    forall p, In p (nodes (gtopd GG)) ->
      get (res (gtop s)) p = den (gtopd GG) (exec_top GG exec_an need fin fout) p /\
      get (failed (gtop s)) p = isNone (den (gtopd GG) (exec_top GG exec_an need fin fout) p).
Proof.
  exact (fun Rp Ra strict GG cap W C exec_an need fin fout L =>
    C06_Global.final_den_global Rp Ra strict GG cap W C exec_an need fin fout
      (proj1 L) (proj1 (proj2 L)) (proj1 (proj2 (proj2 L))) (proj1 (proj2 (proj2 (proj2 L)))) (proj2 (proj2 (proj2 (proj2 L))))).
Qed.
Print Assumptions final_is_denotation.

Theorem confluence :
  forall Rp Ra strict GG cap, wf_dag (gtopd GG) -> 1 <= cap ->
  forall exec_an need fin fout, results_local GG exec_an need fin fout ->
  forall tr1 s1 tr2 s2,
    gcrun Rp Ra strict GG cap exec_an need fin fout tr1 s1 -> gfinal s1 = true ->
    gcrun Rp Ra strict GG cap exec_an need fin fout tr2 s2 -> gfinal s2 = true ->
    forall p, In p (nodes (gtopd GG)) ->
      get (res (gtop s1)) p = get (res (gtop s2)) p /\ get (failed (gtop s1)) p = get (failed (gtop s2)) p.
Proof.
  exact (fun Rp Ra strict GG cap W C exec_an need fin fout L =>
    C06_Global.confluence_global Rp Ra strict GG cap W C exec_an need fin fout
      (proj1 L) (proj1 (proj2 L)) (proj1 (proj2 (proj2 L))) (proj1 (proj2 (proj2 (proj2 L)))) (proj2 (proj2 (proj2 (proj2 L))))).
Qed.
Print Assumptions confluence.

(* no_deadlock for the system with results: a non-final state has an enabled transition that is consistent with
   the result functions (the package level waits for its analyzers, which can always step) *)
Theorem no_deadlock_with_results :
  forall Rp Ra strict GG cap, wf_dag (gtopd GG) -> 1 <= cap ->
  forall exec_an need fin fout, results_local GG exec_an need fin fout ->
  (forall p, wf_dagb (ginnerd GG p) = true) ->
  forall tr s, gcrun Rp Ra strict GG cap exec_an need fin fout tr s -> gfinal s = false ->
    exists l s', gstep strict GG cap s l = Some s' /\ gconsistent exec_an need fin fout s l.
Proof.
  exact (fun Rp Ra strict GG cap W C exec_an need fin fout L =>
    C06_Global.no_deadlock_consistent Rp Ra strict GG cap W C exec_an need fin fout
      (proj1 L) (proj1 (proj2 L)) (proj1 (proj2 (proj2 L))) (proj1 (proj2 (proj2 (proj2 L)))) (proj2 (proj2 (proj2 (proj2 L))))).
Qed.
Print Assumptions no_deadlock_with_results.

(* ---- failed_iff: failed exactly when the action or a transitive dependency raised an error ---- *)
Theorem failed_iff :
  forall Rp Ra strict GG cap, wf_dag (gtopd GG) -> 1 <= cap ->
  forall exec_an need fin fout, results_local GG exec_an need fin fout ->
  forall tr s, gcrun Rp Ra strict GG cap exec_an need fin fout tr s -> gfinal s = true ->
    forall p, In p (nodes (gtopd GG)) ->
      (get (failed (gtop s)) p = true <->
       exists d, dep_star (gtopd GG) d p /\ In d (nodes (gtopd GG)) /\
                 raised Rp (gtopd GG) (exec_top GG exec_an need fin fout) (get (res (gtop s))) d).
Proof.
  exact (fun Rp Ra strict GG cap W C exec_an need fin fout L =>
    C06_Global.failed_iff_global Rp Ra strict GG cap W C exec_an need fin fout
      (proj1 L) (proj1 (proj2 L)) (proj1 (proj2 (proj2 L))) (proj1 (proj2 (proj2 (proj2 L)))) (proj2 (proj2 (proj2 (proj2 L))))).
Qed.
Print Assumptions failed_iff.

Theorem failed_iff_level :
  forall R top strict G, wf_dag G ->
  forall exec : nat -> (nat -> option R) -> option R,
    (forall a m m', (forall d, In d (deps G a) -> m d = m' d) -> exec a m = exec a m') ->
  forall tr s, crun R top strict G exec tr s -> final s = true -> forall a, In a (nodes G) ->
    (get (failed s) a = true <-> exists d, dep_star G d a /\ In d (nodes G) /\ raised R G exec (get (res s)) d).
Proof. exact C06_Level.failed_iff_level. Qed.
Print Assumptions failed_iff_level.

(* ---- results_read_after_write: happens-before skeleton (program order, goroutine start, atomic RMW on the
        pending counter, channel send->receive, close->range exit) ---- *)
Theorem results_read_after_write_level :
  forall R top strict G, wf_dag G ->
  forall tr s g h free a s' f', hrun R top strict G tr s g h -> step top strict G s free (EStart a) = Some (s', f') ->
    forall d, dep_plus G d a -> In d (kt h a) /\ get (dn s) d = true.
Proof. exact C06_Level.results_read_after_write_level. Qed.
Print Assumptions results_read_after_write_level.

Theorem final_reads_after_writes_level :
  forall R top strict G, wf_dag G ->
  forall tr s g h, hrun R top strict G tr s g h -> final s = true ->
    forall a, In a (nodes G) -> In a (km h) /\ get (dn s) a = true.
Proof. exact C06_Level.final_reads_after_writes_level. Qed.
Print Assumptions final_reads_after_writes_level.

(* the same for every level of every execution of the two-level system *)
Theorem results_read_after_write :
  forall Rp Ra strict GG cap, wf_dag (gtopd GG) -> 1 <= cap ->
  forall tr (s : gstate Rp Ra), grun_rel Rp Ra strict GG cap tr s ->
  (exists g h, hrun Rp true strict (gtopd GG) (proj_top Rp Ra tr) (gtop s) g h /\
     (forall a s', gstep strict GG cap s (GTop (EStart a)) = Some s' ->
        forall d, dep_plus (gtopd GG) d a -> In d (kt h a) /\ get (dn (gtop s)) d = true) /\
     (gfinal s = true -> forall a, In a (nodes (gtopd GG)) -> In a (km h) /\ get (dn (gtop s)) a = true))
  /\ (forall p si, get (ginner s) p = Some si ->
        exists g h, hrun Ra false strict (ginnerd GG p) (proj_in Rp Ra p tr) si g h /\
          (forall a s', gstep strict GG cap s (GIn p (EStart a)) = Some s' ->
             forall d, dep_plus (ginnerd GG p) d a -> In d (kt h a) /\ get (dn si) d = true) /\
          (final si = true -> forall a, In a (nodes (ginnerd GG p)) -> In a (km h) /\ get (dn si) a = true)).
Proof. exact C06_Global.results_read_after_write_global. Qed.
Print Assumptions results_read_after_write.

(* ---- pkg_independent: the result of an action depends only on its own transitive dependency cone, so naming
        additional packages (a larger graph that agrees on the cone) does not change it ---- *)
Theorem pkg_independent :
  forall R (G G' : dag), wf_dag G -> wf_dag G' ->
  forall exec : nat -> (nat -> option R) -> option R,
    (forall a m m', (forall d, In d (deps G a) -> m d = m' d) -> exec a m = exec a m') ->
    (forall a m m', (forall d, In d (deps G' a) -> m d = m' d) -> exec a m = exec a m') ->
  forall a, agree_on_cone G G' a -> den G exec a = den G' exec a.
Proof. exact C06_Indep.den_cone_independent. Qed.
Print Assumptions pkg_independent.

(* ---- output_deterministic: the printed order is a function of the multiset of diagnostics when the regenerated
        sort key is total on it (obligation evaluated on every observed output), for ANY sorting algorithm ---- *)
Theorem output_deterministic :
  forall (B : Type) (render : list diag -> B) l1 l2 s1 s2,
    Permutation l1 l2 -> Permutation s1 l1 -> Permutation s2 l2 ->
    sortedb gen_sort_key s1 = true -> sortedb gen_sort_key s2 = true -> key_total gen_sort_key l1 ->
    render s1 = render s2.
Proof. exact (fun B render => C06_Out.output_deterministic_sort B render gen_sort_key). Qed.
Print Assumptions output_deterministic.

Theorem collect_order_irrelevant :
  forall (A : Type) (f : A -> list diag) ps ps', Permutation ps ps' -> Permutation (flat_map f ps) (flat_map f ps').
Proof. exact C06_Out.collect_perm. Qed.
Print Assumptions collect_order_irrelevant.
