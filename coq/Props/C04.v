(* C04 — cache transparency: warm-cache results equal cold-cache results.
   ONLY statements closed by [exact]; each followed by Print Assumptions.
   key_fields / relevant / gen_env_reads are computed from Gen/C04_CacheKey.v, which the translator regenerates
   from /repo on every run, so the [eq_refl] obligations are re-checked against what the code says now.

   What is HYPOTHESIS (premises of the theorems, explored on the real binary, never proved):
     - H injective (salted SHA-256 has no collisions on the keys that occur);
     - analyse_relevant: loading + type-checking + the ~200 analyzers on one package are a function of the
       dimensions in [relevant_assumed] (non-interference of everything else);
     - the interpretation of the `files`/`import` components of the package hash (cmd/go build IDs).
   What is PROVED: the protocol of subrunner.do (lookup vetx/results by key, analyse on miss, store, failures
   never stored, dependencies' facts chained through the key) is transparent for every history. *)
From Coq Require Import List String Bool.
Import ListNotations.
Require Import Verif.Model.C04_Types Verif.Gen.C04_CacheKey Verif.Model.C04 Verif.Proofs.C04.

(* ---- finite obligations on the regenerated tables ---- *)

(* every dimension the analysis is assumed to depend on is written into the action hash *)
Theorem relevant_in_key : dsubset relevant_assumed key_fields = true.
Proof. exact (eq_refl true). Qed.
Print Assumptions relevant_in_key.

(* the check selection (merged Checks = staticcheck.conf checks + -checks) is NOT part of the key *)
Theorem checks_not_in_key : dmem (Cfg "Checks") key_fields = false /\ dmem FlagChecks key_fields = false.
Proof. exact (conj (eq_refl false) (eq_refl false)). Qed.
Print Assumptions checks_not_in_key.

(* sub-keys hang off the action hash, stores match lookups, the stored record is the unfiltered one *)
Theorem protocol_shape : protocol_shape_ok = true.
Proof. exact (eq_refl true). Qed.
Print Assumptions protocol_shape.

(* initial/dependency mode is not part of the key: a facts-only analysis stores ONLY vetx, the other kinds are
   stored after `if a.factsOnly { return nil }` and looked up under `if !a.factsOnly` *)
Theorem factsonly_stores_only_vetx : factsonly_ok = true.
Proof. exact (eq_refl true). Qed.
Print Assumptions factsonly_stores_only_vetx.

(* every environment read in the code linked into cmd/staticcheck is keyed, or cannot influence what is
   analysed/stored, or is the recorded finding (SA9007's directory lookups).  PARTIAL: the full statement
   [env_reads_full_statement] (Model/C04.v) does not hold on this tree, see design.d/C04.md and known_findings.txt. *)
Theorem env_reads_covered_partial :
  forallb (fun r => read_covered r || known_env_finding r) gen_env_reads = true.
Proof. exact (eq_refl true). Qed.
Print Assumptions env_reads_covered_partial.

(* ---- the protocol, for every history ---- *)

(* cache_inv: after any history of edits, runs and trims from the empty cache every stored entry (k |-> v)
   is what analysing ANY input with key k yields *)
Theorem cache_inv :
  forall (V F R K : Type) (K_eq_dec : forall a b : K, {a = b} + {a <> b})
         (H : list (ival V F) -> K), (forall a b, H a = H b -> a = b) ->
  forall (analyse : inp V F -> option (F * R)),
    (forall i i', (forall d, In d relevant_assumed -> get i d = get i' d) -> analyse i = analyse i') ->
  forall (h : list (hop V K)) (w0 : world V),
    cache_inv V F R K key_fields H analyse
              (snd (after V F R K K_eq_dec key_fields H analyse h w0 empty)).
Proof.
  exact (fun V F R K dec H Hinj an Hrel h w0 =>
           cache_inv_after V F R K dec key_fields relevant_assumed H Hinj an Hrel
                           (dsubset_incl _ _ relevant_in_key) h w0 empty
                           (inv_empty V F R K key_fields H an)).
Qed.
Print Assumptions cache_inv.

(* warm_eq_cold: for every history and every later world, the output of a run on the cache the history
   left behind equals the output of a run on the empty cache *)
Theorem warm_eq_cold :
  forall (V F R O K : Type) (K_eq_dec : forall a b : K, {a = b} + {a <> b})
         (H : list (ival V F) -> K), (forall a b, H a = H b -> a = b) ->
  forall (analyse : inp V F -> option (F * R)),
    (forall i i', (forall d, In d relevant_assumed -> get i d = get i' d) -> analyse i = analyse i') ->
  forall (post : world V -> list (pkgid * outcome R) -> O) (h : list (hop V K)) (w0 w : world V),
    output V F R O K K_eq_dec key_fields H analyse post w
           (snd (after V F R K K_eq_dec key_fields H analyse h w0 empty))
    = output V F R O K K_eq_dec key_fields H analyse post w empty.
Proof.
  exact (fun V F R O K dec H Hinj an Hrel post h w0 w =>
           warm_eq_cold_generic V F R O K dec key_fields relevant_assumed H Hinj an Hrel
                                (dsubset_incl _ _ relevant_in_key) post h w0 w).
Qed.
Print Assumptions warm_eq_cold.

(* and both equal the cache-less reference: analysing every package bottom-up *)
Theorem warm_eq_reference :
  forall (V F R K : Type) (K_eq_dec : forall a b : K, {a = b} + {a <> b})
         (H : list (ival V F) -> K), (forall a b, H a = H b -> a = b) ->
  forall (analyse : inp V F -> option (F * R)),
    (forall i i', (forall d, In d relevant_assumed -> get i d = get i' d) -> analyse i = analyse i') ->
  forall (h : list (hop V K)) (w0 w : world V),
    snd (run V F R K K_eq_dec key_fields H analyse w
             (snd (after V F R K K_eq_dec key_fields H analyse h w0 empty)))
    = ref_run V F R analyse w.
Proof.
  exact (fun V F R K dec H Hinj an Hrel h w0 w =>
           warm_eq_ref_generic V F R K dec key_fields relevant_assumed H Hinj an Hrel
                               (dsubset_incl _ _ relevant_in_key) h w0 w).
Qed.
Print Assumptions warm_eq_reference.

(* checks_not_in_key_ok: inputs that differ only in the check selection share one key (entries are reused),
   and since [post] applies the selection to the loaded unfiltered record the output is the cold output *)
Theorem checks_not_in_key_ok :
  forall (V F R O K : Type) (K_eq_dec : forall a b : K, {a = b} + {a <> b})
         (H : list (ival V F) -> K), (forall a b, H a = H b -> a = b) ->
  forall (analyse : inp V F -> option (F * R)),
    (forall i i', (forall d, In d relevant_assumed -> get i d = get i' d) -> analyse i = analyse i') ->
  forall (post : world V -> list (pkgid * outcome R) -> O),
    (forall i i', same_but_checks V F i i' -> key key_fields H i = key key_fields H i') /\
    (forall h w0 w,
        output V F R O K K_eq_dec key_fields H analyse post w
               (snd (after V F R K K_eq_dec key_fields H analyse h w0 empty))
        = output V F R O K K_eq_dec key_fields H analyse post w empty).
Proof.
  exact (fun V F R O K dec H Hinj an Hrel post =>
           checks_not_in_key_generic V F R O K dec key_fields relevant_assumed H Hinj an Hrel
                                     (dsubset_incl _ _ relevant_in_key) post
                                     (dmem_false_notin _ _ (proj1 checks_not_in_key))
                                     (dmem_false_notin _ _ (proj2 checks_not_in_key))).
Qed.
Print Assumptions checks_not_in_key_ok.

(* the cache is effective: after a run of w in which no package failed, a run of any world that differs from w
   at most in the check selection (staticcheck.conf `checks`, -checks) performs no analysis at all *)
Theorem rerun_no_analysis :
  forall (V F R K : Type) (K_eq_dec : forall a b : K, {a = b} + {a <> b})
         (H : list (ival V F) -> K), (forall a b, H a = H b -> a = b) ->
  forall (analyse : inp V F -> option (F * R)),
    (forall i i', (forall d, In d relevant_assumed -> get i d = get i' d) -> analyse i = analyse i') ->
  forall (h : list (hop V K)) (w0 w w' : world V),
    Forall2 (same_pkg V) w w' ->
    (forall x, In x (ref_run V F R analyse w) -> snd x <> OFailed) ->
    analyses V F R K K_eq_dec key_fields H analyse w'
             (fst (run V F R K K_eq_dec key_fields H analyse w
                       (snd (after V F R K K_eq_dec key_fields H analyse h w0 empty)))) = 0.
Proof.
  exact (fun V F R K dec H Hinj an Hrel h w0 w w' HF Hok =>
           rerun_no_analysis_generic V F R K dec key_fields relevant_assumed H Hinj an Hrel
             (dsubset_incl _ _ relevant_in_key)
             (dmem_false_notin _ _ (proj1 checks_not_in_key)) (dmem_false_notin _ _ (proj2 checks_not_in_key))
             w w' _
             (cache_inv_after V F R K dec key_fields relevant_assumed H Hinj an Hrel
                              (dsubset_incl _ _ relevant_in_key) h w0 empty (inv_empty V F R K key_fields H an))
             HF Hok).
Qed.
Print Assumptions rerun_no_analysis.
