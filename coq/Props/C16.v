(* C16 — problems point at real locations; fixes apply cleanly, keep behaviour.
   ONLY statements closed by [exact]; each followed by Print Assumptions.
   Part 1: positions <-> offsets and edit application, for ALL files / positions / edit lists.
   Part 2: the rewrite catalogue: before/after schemas of fixes, for ALL sub-expressions (arbitrary
   denotations with events, store effects and panics), each naming the check it covers; and
   refutations (with witness) of the rewrites that are not equivalences.
   What is NOT a theorem (parsing, typing, behaviour of compiled code, the analyzers' own code) is
   decided by the Go toolchain as oracle in the harness; see design.d/C16.md. *)
From Coq Require Import List Arith Bool NArith ZArith Permutation.
Import ListNotations.
Require Import Verif.Model.C16 Verif.Proofs.C16 Verif.Model.C16_Rewrites Verif.Proofs.C16_Rewrites.

(* ---------------------------------------------------------------- positions *)
(* for every file (LF, CRLF or mixed line ends, with or without a final newline) and every offset in it *)
Theorem pos_offset_roundtrip :
  forall (f : file) (off : nat), off <= length f -> offset_of f (pos_of f off) = Some off.
Proof. exact pos_offset_roundtrip_1. Qed.
Print Assumptions pos_offset_roundtrip.

Theorem offset_pos_roundtrip :
  forall (f : file) (p : nat * nat) (off : nat), offset_of f p = Some off -> pos_of f off = p.
Proof. exact pos_offset_roundtrip_2. Qed.
Print Assumptions offset_pos_roundtrip.

(* a (line, column) is accepted by the line-length table iff it is the position of some offset 0..|f| *)
Theorem valid_pos_iff :
  forall (f : file) (p : nat * nat),
    valid_pos_b f p = true <-> exists off, off <= length f /\ pos_of f off = p.
Proof. exact Verif.Proofs.C16.valid_pos_iff. Qed.
Print Assumptions valid_pos_iff.

(* ---------------------------------------------------------------- edits *)
(* the result does not depend on the order in which the edits are listed (insertions at one offset
   must carry the same text, otherwise their order is meaningful by definition) *)
Theorem apply_perm_invariant :
  forall (f : file) (es es' : list edit),
    Permutation es es' -> inserts_unambiguous es -> apply_edits f es = apply_edits f es'.
Proof. exact Verif.Proofs.C16.apply_perm_invariant. Qed.
Print Assumptions apply_perm_invariant.

Theorem apply_length :
  forall (f : file) (es : list edit) (r : list N),
    apply_edits f es = Some r -> length r + sum_del es = length f + sum_new es.
Proof. exact Verif.Proofs.C16.apply_length. Qed.
Print Assumptions apply_length.

(* bytes outside all edit ranges are preserved, at their shifted offsets *)
Theorem apply_untouched :
  forall (f : file) (es : list edit) (r : list N) (o : nat),
    apply_edits f es = Some r -> o < length f -> untouched es o ->
    nth_error r (shifted es o) = nth_error f o.
Proof. exact Verif.Proofs.C16.apply_untouched. Qed.
Print Assumptions apply_untouched.

(* exactly the edit lists that stay within bounds and do not overlap are applied *)
Theorem overlap_detected :
  forall (f : file) (es : list edit), apply_edits f es = None <-> ~ edits_ok (length f) es.
Proof. exact Verif.Proofs.C16.overlap_detected. Qed.
Print Assumptions overlap_detected.

Theorem edits_ok_b_iff :
  forall (n : nat) (es : list edit), edits_ok_b n es = true <-> edits_ok n es.
Proof. exact Verif.Proofs.C16.edits_ok_b_iff. Qed.
Print Assumptions edits_ok_b_iff.

(* ---------------------------------------------------------------- rewrite catalogue *)
(* QF1001 (and the condition QF1006 builds): NegateDeMorgan, recursive or not *)
Theorem QF1001_negate_correct :
  forall (r : bool) (e : bexpr), no_float_cmp e = true -> deq (beval (negate r e)) (beval (BNot e)).
Proof. exact Verif.Proofs.C16_Rewrites.QF1001_negate_correct. Qed.
Print Assumptions QF1001_negate_correct.

Theorem QF1001_demorgan :
  forall a b, deq (beval (BNot (BAnd a b))) (beval (BOr (BNot a) (BNot b))) /\
              deq (beval (BNot (BOr a b))) (beval (BAnd (BNot a) (BNot b))).
Proof. exact (fun a b => conj (QF1001_demorgan_and a b) (QF1001_demorgan_or a b)). Qed.
Print Assumptions QF1001_demorgan.

(* QF1001 "& simplify" / QF1005: re-association is fine for && || + * ... *)
Theorem simplify_parens_assoc_ok :
  forall a b c, deq (beval (BAnd a (BParen (BAnd b c)))) (beval (BAnd (BAnd a b) c)) /\
                deq (beval (BOr a (BParen (BOr b c)))) (beval (BOr (BOr a b) c)).
Proof. exact (fun a b c => conj (and_assoc a b c) (or_assoc a b c)). Qed.
Print Assumptions simplify_parens_assoc_ok.
Theorem simplify_parens_arith_ok :
  forall o a b c, o = Add \/ o = Mul -> deq (ieval (fst (rotate_i o a b c))) (ieval (snd (rotate_i o a b c))).
Proof. exact rotate_assoc_ok. Qed.
Print Assumptions simplify_parens_arith_ok.
(* ... and refuted for - and / (finding QF1001:simplify-nonassoc) *)
Theorem QF1001_simplify_sub_refuted :
  exists a b c s, ieval (fst (rotate_i Sub a b c)) s <> ieval (snd (rotate_i Sub a b c)) s.
Proof. exact Verif.Proofs.C16_Rewrites.QF1001_simplify_sub_refuted. Qed.
Print Assumptions QF1001_simplify_sub_refuted.

(* S1002: comparison with a boolean constant, as the analyzer builds the replacement *)
Theorem S1002_fix_correct :
  forall eq v e, deq (beval (s1002_fix eq v e)) (beval (BCmpB eq e (BLit v))).
Proof. exact Verif.Proofs.C16_Rewrites.S1002_fix_correct. Qed.
Print Assumptions S1002_fix_correct.
Theorem S1002_const_left :
  forall eq v e, deq (beval (BCmpB eq (BLit v) e)) (beval (if Bool.eqb eq v then e else BNot e)).
Proof. exact S1002_cmp_const_l. Qed.
Print Assumptions S1002_const_left.
Theorem double_negation : forall e, deq (beval (BNot (BNot e))) (beval e).
Proof. exact not_not. Qed.
Print Assumptions double_negation.

(* ST1017: Yoda swap for a constant left operand; refuted for effectful operands *)
Theorem ST1017_yoda_swap :
  forall o c e, iconst c = true -> o = Eq \/ o = Ne -> deq (beval (BCmpI o c e)) (beval (BCmpI o e c)).
Proof. exact Verif.Proofs.C16_Rewrites.ST1017_yoda_swap. Qed.
Print Assumptions ST1017_yoda_swap.
Theorem yoda_swap_effectful_refuted : exists a b s, beval (BCmpI Eq a b) s <> beval (BCmpI Eq b a) s.
Proof. exact Verif.Proofs.C16_Rewrites.yoda_swap_effectful_refuted. Qed.
Print Assumptions yoda_swap_effectful_refuted.

(* S1008 (the check only reports; the rewrite it describes) *)
Theorem S1008_if_return :
  forall c, deq (sexec (SSeq (SIf c (SReturnB (BLit true)) SSkip) (SReturnB (BLit false)))) (sexec (SReturnB c)) /\
            deq (sexec (SSeq (SIf c (SReturnB (BLit false)) SSkip) (SReturnB (BLit true)))) (sexec (SReturnB (BNot c))).
Proof. exact (fun c => conj (Verif.Proofs.C16_Rewrites.S1008_if_return c) (S1008_if_return_neg c)). Qed.
Print Assumptions S1008_if_return.

(* QF1007 / S1021: merging a conditional assignment / an assignment into the declaration *)
Theorem QF1007_merge :
  forall c x, indep_b c x -> forall s,
    upto_dead_b x false (sexec (SSeq (SAssignB x (BLit false)) (SIf c (SAssignB x (BLit true)) SSkip)) s) (sexec (SAssignB x c) s) /\
    upto_dead_b x true (sexec (SSeq (SAssignB x (BLit true)) (SIf c (SAssignB x (BLit false)) SSkip)) s) (sexec (SAssignB x (BNot c)) s).
Proof. exact (fun c x I s => conj (QF1007_merge_false c x I s) (QF1007_merge_true c x I s)). Qed.
Print Assumptions QF1007_merge.
Theorem S1021_merge_decl :
  forall e x, indep_i e x -> forall s,
    upto_dead_i x 0%Z (sexec (SSeq (SAssignI x (ILit 0)) (SAssignI x e)) s) (sexec (SAssignI x e) s).
Proof. exact Verif.Proofs.C16_Rewrites.S1021_merge_decl. Qed.
Print Assumptions S1021_merge_decl.

(* x = x + 1  /  x += 1  /  x++ ; S1005 *)
Theorem incdec_forms :
  forall x, deq (sexec (SAssignI x (IBin Add (IVar x) (ILit 1)))) (sexec (SIncr x)) /\
            deq (sexec (SAddAssign x (ILit 1))) (sexec (SIncr x)).
Proof. exact Verif.Proofs.C16_Rewrites.incdec_forms. Qed.
Print Assumptions incdec_forms.
Theorem S1005_blank_assign : forall e, deq (sexec (SBlankI e)) (sexec (SExprI e)).
Proof. exact Verif.Proofs.C16_Rewrites.S1005_blank_assign. Qed.
Print Assumptions S1005_blank_assign.

(* QF1006: lifting `if c { break }` into the loop condition, with the condition NegateDeMorgan builds *)
Theorem QF1006_fix_correct :
  forall n c body, no_float_cmp c = true ->
    deq (sexec (SFor n None (SSeq (SIf c SBreak SSkip) body))) (sexec (SFor n (Some (negate false c)) body)).
Proof. exact Verif.Proofs.C16_Rewrites.QF1006_fix_correct. Qed.
Print Assumptions QF1006_fix_correct.
(* ... refuted for float orderings, which QF1006 does not exclude (finding QF1006:float-ordering) *)
Theorem QF1006_float_loop_refuted :
  exists c body s,
    sexec (SFor 1 None (SSeq (SIf c SBreak SSkip) body)) s <> sexec (SFor 1 (Some (negate false c)) body) s.
Proof. exact Verif.Proofs.C16_Rewrites.QF1006_float_loop_refuted. Qed.
Print Assumptions QF1006_float_loop_refuted.

(* S1033 / S1036: guards around map operations *)
Theorem S1033_guarded_delete_pure :
  forall k, ipure k = true -> deq (sexec (SGuardedDelete k)) (sexec (SDelete k)).
Proof. exact Verif.Proofs.C16_Rewrites.S1033_guarded_delete_pure. Qed.
Print Assumptions S1033_guarded_delete_pure.
(* the analyzer does not require a pure key (finding S1033:effectful-key) *)
Theorem S1033_guarded_delete_refuted : exists k s, sexec (SGuardedDelete k) s <> sexec (SDelete k) s.
Proof. exact Verif.Proofs.C16_Rewrites.S1033_guarded_delete_refuted. Qed.
Print Assumptions S1033_guarded_delete_refuted.
Theorem S1036_guarded_incr :
  forall k, ipure k = true -> deq (sexec (SGuardedMapIncr k)) (sexec (SMapIncr k)).
Proof. exact Verif.Proofs.C16_Rewrites.S1036_guarded_incr. Qed.
Print Assumptions S1036_guarded_incr.
