(* C10 — ignore directives suppress exactly what they name, nothing else.
   ONLY statements closed by [exact]; each followed by Print Assumptions.
   Model: Model/C10.v (transcription of parseDirective, parseDirectives, filterIgnored, lineIgnore/fileIgnore.match,
   couldHaveMatched, the ignores map of unused.go); specification: Model/C10_Spec.v. *)
From Coq Require Import List ZArith Bool String Ascii.
Import ListNotations.
Require Import Verif.Model.C10 Verif.Model.C10_Spec Verif.Proofs.C10.
Open Scope string_scope.
Open Scope list_scope.

(* the matcher computes the declarative glob relation ('*' any string, '?' any character) *)
Theorem glob_match_correct : forall p s, glob_match p s = true <-> Matches p s.
Proof. exact glob_match_iff. Qed.
Print Assumptions glob_match_correct.

(* parseDirective: the text after "//lint:" is cut at every single space; first field = command *)
Theorem parse_directive_fields : forall s c args,
  parse_directive s = Some (c, args) <->
  s = (lint_prefix ++ join space (c :: args))%string /\ forall x, In x (c :: args) -> has_char space x = false.
Proof. exact parse_directive_spec. Qed.
Print Assumptions parse_directive_fields.

(* a directive "has a reason" iff the comment text after the name list contains a character other than a space *)
Theorem has_reason_iff_text : forall s c args,
  parse_directive s = Some (c, args) ->
  (has_reason args = true <-> exists names rest, args = names :: rest /\ all_space (join space rest) = false).
Proof. exact has_reason_text. Qed.
Print Assumptions has_reason_iff_text.

(* ignored_iff: the i-th input diagnostic comes out at index i, identical up to its severity, and its severity is
   "ignored" iff it already was or some directive WITH A REASON, attached to a node in the same file (and on the same
   line for //lint:ignore), has a name that glob-matches the diagnostic's check case-insensitively. *)
Theorem ignored_iff : forall ds dirs allowed i x,
  nth_error ds i = Some x ->
  exists y, nth_error (filter_ignored ds dirs allowed) i = Some y /\
    set_sev (d_sev x) y = x /\
    (d_sev y = SevIgnored <-> d_sev x = SevIgnored \/ exists d, In d dirs /\ suppresses d x).
Proof. exact ignored_iff_thm. Qed.
Print Assumptions ignored_iff.

(* others_unchanged: output = input diagnostics in order, each either untouched or only re-severitied to ignored, ++ extras *)
Theorem others_unchanged : forall ds dirs allowed,
  exists main extras, filter_ignored ds dirs allowed = main ++ extras /\
    Forall2 (fun x y => y = x \/ y = set_sev SevIgnored x) ds main.
Proof. exact others_unchanged_thm. Qed.
Print Assumptions others_unchanged.

(* malformed_is_error: each ignore/file-ignore directive without a reason yields exactly one error (category compile,
   severity error, at the node position), in directive order, and suppresses nothing *)
Theorem malformed_is_error : forall ds dirs allowed,
  exists unm, filter_ignored ds dirs allowed =
      spec_main ds dirs ++ map malformed_diag (filter malformed_b dirs) ++ unm /\
    Forall (fun u => d_cat u = "staticcheck") unm /\
    forall d, malformed d -> forall x, ~ suppresses d x.
Proof. exact malformed_is_error_thm. Qed.
Print Assumptions malformed_is_error.

(* unmatched directives: the remaining extras are one report per directive for which impl_report holds ... *)
Theorem unmatched_extras : forall ds dirs allowed,
  exists main mal, filter_ignored ds dirs allowed =
    main ++ mal ++ flat_map (fun d => if impl_report allowed ds d then [unmatched_diag (sd_dpos d)] else []) dirs.
Proof. exact unmatched_extras_thm. Qed.
Print Assumptions unmatched_extras.

(* ... a report is never spurious: the directive is a line directive with a reason that suppressed nothing and names an
   enabled check other than U1000 ... *)
Theorem unmatched_report_sound : forall allowed ds d, impl_report allowed ds d = true -> must_report allowed ds d.
Proof. exact report_sound. Qed.
Print Assumptions unmatched_report_sound.

(* ... couldHaveMatched decides at the first name that matches U1000 or an enabled check ... *)
Theorem could_have_matched_first_decisive : forall allowed cs,
  could_have_matched allowed cs = true <->
  exists pre c post, cs = pre ++ c :: post /\ enabled_name allowed c = true /\ names_u1000 c = false /\
                     forall x, In x pre -> names_u1000 x = false /\ enabled_name allowed x = false.
Proof. exact chm_iff. Qed.
Print Assumptions could_have_matched_first_decisive.

(* ... so the property's "is itself reported unless it only names disabled checks or U1000" holds for directives none of
   whose names matches U1000 (unmatched_reported_iff, partial) ... *)
Theorem unmatched_reported_iff_partial : forall allowed ds d,
  u1000_free d -> (impl_report allowed ds d = true <-> must_report allowed ds d).
Proof. exact (fun allowed ds d H => conj (report_sound allowed ds d) (report_complete_partial allowed ds d H)). Qed.
Print Assumptions unmatched_reported_iff_partial.

(* ... and NOT in general: unmatched_reported_full_statement is refuted by "U1000,SA4006" (finding F10) *)
Theorem unmatched_reported_iff_refuted : ~ unmatched_reported_full_statement.
Proof. exact unmatched_reported_full_refuted. Qed.
Print Assumptions unmatched_reported_iff_refuted.

(* whole output = specified output when no name matches U1000 *)
Theorem filter_ignored_is_spec : forall ds dirs allowed,
  (forall d, In d dirs -> u1000_free d) ->
  filter_ignored ds dirs allowed = spec_main ds dirs ++ spec_extras ds dirs allowed.
Proof. exact output_is_spec. Qed.
Print Assumptions filter_ignored_is_spec.

(* U1000: an object position is a root of the unused graph iff a directive with a reason that names U1000 (glob,
   case-insensitive) is attached to its line (ignore) or is in its file (file-ignore) *)
Theorem u1000_ignored_exact : forall dirs p,
  u1000_ignored dirs p = true <-> exists d, In d dirs /\ u1000_suppresses d p.
Proof. exact u1000_ignored_iff. Qed.
Print Assumptions u1000_ignored_exact.
