(* C20 — version-restricted problems respect the effective Go version.
   ONLY statements closed by [exact]; each followed by Print Assumptions.
   The tables gen_setters / gen_gates / gen_std_threshold are regenerated from /repo on every run,
   so [eq_refl] below is re-checked against what the code says now. *)
From Coq Require Import List ZArith Bool.
Import ListNotations.
Require Import Verif.Model.C20_Types Verif.Gen.C20_ReportOpts Verif.Model.C20 Verif.Proofs.C20.

(* Finite obligations on the regenerated tables. *)
Theorem c20_tables_ok : tables_ok gen_setters gen_gates = true.
Proof. exact (eq_refl true). Qed.
Print Assumptions c20_tables_ok.

Theorem c20_std_table_ok : std_table_ok gen_std_threshold gen_std_threshold_sign = true.
Proof. exact (eq_refl true). Qed.
Print Assumptions c20_std_table_ok.

(* For ANY sequence of option setters and any effective versions: reported iff both versions lie in
   the range the caller asked for (last setter of each kind wins; absent bounds are unbounded). *)
Theorem report_iff_in_range :
  forall (l : list (bound * version)) (lang std : version),
    report_impl gen_setters gen_gates l lang std = in_range l lang std.
Proof. exact (report_iff_generic gen_setters gen_gates c20_tables_ok). Qed.
Print Assumptions report_iff_in_range.

(* StdlibVersion: tag absent -> package version; package version < go1.21 -> the tag;
   otherwise max(tag, package version). *)
Theorem std_version_spec :
  forall pkgv tag, file_std pkgv tag = file_std_spec pkgv tag.
Proof. exact (fun pkgv tag => std_version_generic _ _ pkgv tag c20_std_table_ok). Qed.
Print Assumptions std_version_spec.

(* -go 1.N overrides the module's version, -go module keeps it. *)
Theorem flag_overrides_module :
  forall modv v tc m, pkg_version modv (Some v) tc = v /\ pkg_version (Some m) None tc = m.
Proof. exact (fun modv v tc m => conj (flag_overrides modv v tc) (flag_module_keeps m tc)). Qed.
Print Assumptions flag_overrides_module.

(* End to end over the grid cell (module version, -go flag, file tag): *)
Theorem reported_iff_effective_in_range :
  forall modv flag tag tc l,
    reported gen_setters gen_gates modv flag tag tc l =
    in_range l (file_lang (pkg_version modv flag tc) tag) (file_std_spec (pkg_version modv flag tc) tag).
Proof.
  exact (fun modv flag tag tc l =>
    eq_trans (report_iff_in_range l _ _)
             (f_equal (in_range l (file_lang (pkg_version modv flag tc) tag)) (std_version_spec _ tag))).
Qed.
Print Assumptions reported_iff_effective_in_range.
