(* C12 — merging runs follows any/all semantics, order-independently, idempotently, with exact build names.
   ONLY statements closed by [exact]; each followed by Print Assumptions.
   gen_sort_key / gen_equal_fields / gen_descr_fields / gen_merge_any / gen_merge_all are regenerated from
   /repo on every run, so the [eq_refl] obligations below are re-checked against what the code says now. *)
From Coq Require Import List ZArith Bool String Permutation Sorting.Sorted.
Import ListNotations.
Require Import Verif.Lib.CmpOrder Verif.Model.C12_Types Verif.Gen.C12_SortKey Verif.Model.C12 Verif.Proofs.C12 Verif.Proofs.C12_Spec.

(* ---- finite obligations on the regenerated tables ---- *)
(* every field of the descriptor is compared before the first non-descriptor field (BuildName) *)
Theorem c12_key_ok : key_ok gen_sort_key = true.
Proof. exact (eq_refl true). Qed.
Print Assumptions c12_key_ok.

Theorem c12_equal_ok : equal_ok gen_equal_fields = true.
Proof. exact (eq_refl true). Qed.
Print Assumptions c12_equal_ok.

Theorem c12_descr_ok : descr_ok gen_descr_fields = true.
Proof. exact (eq_refl true). Qed.
Print Assumptions c12_descr_ok.

Theorem c12_strategies_ok : strategies_ok gen_merge_any gen_merge_all = true.
Proof. exact (eq_refl true). Qed.
Print Assumptions c12_strategies_ok.

(* the closure handed to sort.Slice is a strict weak order (so sort.Slice's contract applies) *)
Theorem sort_key_is_order : pre_ok (key_cmp gen_sort_key).
Proof. exact (key_cmp_ok gen_sort_key). Qed.
Print Assumptions sort_key_is_order.

Notation merged := (merge_runs gen_descr_fields gen_merge_any gen_merge_all).
Notation reports := (run_reports gen_descr_fields gen_merge_any gen_merge_all).
Notation has := (merged_has gen_descr_fields gen_merge_any gen_merge_all).

(* map assignment in runFromLintResult: of several entries with one descriptor the last survives *)
Theorem run_keeps_last :
  forall (r : run) (d : diag),
    In d (run_map gen_descr_fields r) <->
    exists l1 l2, r_diags r = l1 ++ d :: l2 /\ forall x, In x l2 -> descr_of x <> descr_of d.
Proof. exact (fun r d => keep_last_spec gen_descr_fields c12_descr_ok d (r_diags r)). Qed.
Print Assumptions run_keeps_last.

(* a problem of an 'any' check is in the result iff some run reported it *)
Theorem merge_any :
  forall (rs : list run) (k : descr),
    has rs k MAny <-> exists r, In r rs /\ reports r k MAny.
Proof. exact (merge_any_gen gen_descr_fields gen_merge_any gen_merge_all). Qed.
Print Assumptions merge_any.

(* a problem of an 'all' check is in the result iff some run reported it and every run that checked
   its file contains it *)
Theorem merge_all :
  forall (rs : list run) (k : descr),
    has rs k MAll <->
    (exists r, In r rs /\ reports r k MAll) /\
    (forall r', In r' rs -> In (descr_file k) (r_checked r') -> run_contains r' k).
Proof. exact (merge_all_gen gen_descr_fields gen_merge_any gen_merge_all c12_descr_ok). Qed.
Print Assumptions merge_all.

(* reordering the runs only permutes the merged problems *)
Theorem merge_perm :
  forall rs rs', Permutation rs rs' -> Permutation (merged rs) (merged rs').
Proof. exact (merge_perm_gen gen_descr_fields gen_merge_any gen_merge_all). Qed.
Print Assumptions merge_perm.

(* repeating a run (at any position) changes nothing: the merged problems depend on the set of runs *)
Theorem merge_idem :
  forall rs1 r rs2 d, In d (merged (rs1 ++ r :: rs2)) <-> In d (merged (rs1 ++ r :: r :: rs2)).
Proof. exact (merge_idem_gen gen_descr_fields gen_merge_any gen_merge_all). Qed.
Print Assumptions merge_idem.

Theorem merge_depends_on_run_set :
  forall rs rs', (forall r, In r rs <-> In r rs') -> forall d, In d (merged rs) <-> In d (merged rs').
Proof. exact (merge_set_ext gen_descr_fields gen_merge_any gen_merge_all). Qed.
Print Assumptions merge_depends_on_run_set.

(* printDiagnostics: whatever sorted arrangement sort.Slice returns, every problem is printed exactly once
   and carries exactly the sorted set of build names under which it occurs among the merged problems *)
Theorem build_names_exact :
  forall (ds s : list diag),
    cat_canon ds -> Permutation s ds -> sorted_by gen_sort_key s ->
    exact_output ds (map finish (dedupe gen_equal_fields gen_descr_fields s)).
Proof. exact (dedupe_exact gen_sort_key gen_equal_fields gen_descr_fields c12_key_ok c12_equal_ok c12_descr_ok). Qed.
Print Assumptions build_names_exact.

(* ... hence the printed problems (descriptor, build names) do not depend on the order or repetition of runs *)
Theorem printed_depends_on_run_set :
  forall rs rs' s s',
    (forall r, In r rs <-> In r rs') ->
    cat_canon (merged rs) -> cat_canon (merged rs') ->
    Permutation s (merged rs) -> sorted_by gen_sort_key s ->
    Permutation s' (merged rs') -> sorted_by gen_sort_key s' ->
    forall v, In v (map entry_view (map finish (dedupe gen_equal_fields gen_descr_fields s))) ->
              In v (map entry_view (map finish (dedupe gen_equal_fields gen_descr_fields s'))).
Proof.
  exact (fun rs rs' s s' Hset Hc Hc' Hp Hs Hp' Hs' =>
    exact_output_unique (merged rs) (merged rs') _ _
      (merge_set_ext gen_descr_fields gen_merge_any gen_merge_all rs rs' Hset)
      (build_names_exact (merged rs) s Hc Hp Hs)
      (build_names_exact (merged rs') s' Hc' Hp' Hs')).
Qed.
Print Assumptions printed_depends_on_run_set.

(* the executable model used for the correspondence check is one such arrangement *)
Theorem model_print_exact :
  forall ds, cat_canon ds -> exact_output ds (print_entries gen_sort_key gen_equal_fields gen_descr_fields ds).
Proof. exact (print_entries_exact gen_sort_key gen_equal_fields gen_descr_fields c12_key_ok c12_equal_ok c12_descr_ok). Qed.
Print Assumptions model_print_exact.

(* the executable specification the correspondence check evaluates on the implementation's output
   (one entry per distinct descriptor, sorted set of its build names) is an exact output, and any exact
   output shows precisely its (descriptor, build names) pairs *)
Theorem spec_is_exact : forall ds, exact_output ds (spec_group ds).
Proof. exact spec_group_exact. Qed.
Print Assumptions spec_is_exact.

Theorem exact_matches_spec :
  forall ds out v, exact_output ds out -> (In v (map entry_view out) <-> In v (map entry_view (spec_group ds))).
Proof. exact Verif.Proofs.C12_Spec.exact_matches_spec. Qed.
Print Assumptions exact_matches_spec.

(* lint(): the files a run counts as checked are the files of the packages it actually analysed (named by the
   patterns, compiled, not skipped); together with merge_all: a configuration in which a package fails to compile
   does not veto the 'all' problems the other configurations report in that package's files *)
Theorem checked_files_are_analysed :
  forall ps f, In f (checked_of ps) <->
    exists p, In p ps /\ pk_initial p = true /\ pk_failed p = false /\ pk_skipped p = false /\ In f (pk_files p).
Proof. exact checked_of_iff. Qed.
Print Assumptions checked_files_are_analysed.
