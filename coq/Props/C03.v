(* C03 — analysis is total (the provable half: totality of dispatch).
   ONLY statements closed by [exact]; each followed by Print Assumptions.
   gen_switches / gen_universes / gen_filters / gen_builtins / gen_ir_constructed are regenerated from /repo and
   GOROOT on every run, so the kernel computations below ([<:] = vm_compute cast) are re-checked against what the
   source says now.  The registry (universe + justified exclusions per switch) is Model/C03_Registry.v. *)
From Coq Require Import List String Bool.
Import ListNotations.
Require Import Verif.Model.C03_Types Verif.Gen.C03_Switches Verif.Model.C03 Verif.Model.C03_Registry Verif.Proofs.C03.
Open Scope string_scope.

(* General lemma over the abstract dispatch model: coverage of (universe - exclusions) by the case list implies
   the dispatch never reaches the panicking default for any non-excluded universe member. *)
Theorem coverage_implies_no_panic_branch :
  forall ifaces cases univ excl, covers ifaces cases univ excl = true ->
  forall d, In d univ -> ~ In d excl -> dispatch ifaces cases d <> Default.
Proof. exact covers_total. Qed.
Print Assumptions coverage_implies_no_panic_branch.

(* The model's dispatch is Go's: the clause taken is the first one in source order that accepts the value. *)
Theorem dispatch_takes_first_matching_clause :
  forall ifaces cases d k, dispatch ifaces cases d = Clause k ->
  exists c, nth_error cases k = Some c /\ case_matches ifaces c d = true /\
  forall j c', j < k -> nth_error cases j = Some c' -> case_matches ifaces c' d = false.
Proof. exact dispatch_first_match. Qed.
Print Assumptions dispatch_takes_first_matching_clause.

(* Every witness the check reports is a universe member, not excluded, on which the model reaches the default. *)
Theorem witnesses_reach_panic_branch :
  forall ifaces cases univ excl d, In d (uncovered ifaces cases univ excl) ->
  In d univ /\ ~ In d excl /\ dispatch ifaces cases d = Default.
Proof. exact uncovered_is_default. Qed.
Print Assumptions witnesses_reach_panic_branch.

(* Finite obligation on the regenerated tables: every registered switch is found in the source and its case list
   covers its universe minus its (valid) exclusions. *)
Theorem c03_registry_total : forallb reg_ok registry = true.
Proof. exact (eq_refl true <: forallb reg_ok registry = true). Qed.
Print Assumptions c03_registry_total.

(* switch_total, the whole family in one statement: for every registered switch, no member of its universe
   outside the exclusion table reaches the panicking branch. *)
Theorem switch_total :
  forall r, In r registry ->
  exists sw u, find_switch (r_id r) = Some sw /\ universe_of r = Some u /\
    forall d, In d u -> ~ In d (excluded r) -> dispatch gen_universes (sw_cases sw) d <> Default.
Proof. exact (registry_total_generic c03_registry_total). Qed.
Print Assumptions switch_total.

(* Every panicking switch the scan finds is registered, listed as explored-only with a reason, or covers a whole
   known universe by itself: no new panicking dispatch goes unnoticed. *)
Theorem c03_scan_accounted : unaccounted = [].
Proof. exact (@eq_refl (list string) [] <: unaccounted = []). Qed.
Print Assumptions c03_scan_accounted.

(* Every builtin name of go/types' predeclaredFuncs and every synthetic go/ir builtin is classified, and the ones
   classified "lowered by the builder" are cases of builder.builtin. *)
Theorem c03_builtins_classified : unclassified_builtins = [] /\ lowered_not_in_builder = [].
Proof. exact (conj (@eq_refl (list string) [] <: unclassified_builtins = []) (@eq_refl (list string) [] <: lowered_not_in_builder = [])). Qed.
Print Assumptions c03_builtins_classified.

(* ---- headline members of the family, spelled out ---- *)

(* nilness: the instruction switch of processBlock handles every ir.Instruction implementor that go/ir constructs *)
Theorem switch_total_nilness_instr :
  total_on (nilness ++ "instr.(type)") (members gen_universes "ir.Instruction") ["*ir.StringLookup"].
Proof. exact (total_on_chk _ _ _ (eq_refl true <: chk (nilness ++ "instr.(type)") (members gen_universes "ir.Instruction") ["*ir.StringLookup"] = true)). Qed.
Print Assumptions switch_total_nilness_instr.
Theorem stringlookup_never_constructed : mem "*ir.StringLookup" gen_ir_constructed = false.
Proof. exact (eq_refl false <: mem "*ir.StringLookup" gen_ir_constructed = false). Qed.
Print Assumptions stringlookup_never_constructed.

(* nilness: the builtin-name switch of handleReturnValue handles every builtin whose call result can be pointer-like *)
Theorem switch_total_nilness_builtin : total_on (nilness ++ "callee.Name()") builtin_universe [].
Proof. exact (total_on_chk _ _ _ (eq_refl true <: chk (nilness ++ "callee.Name()") builtin_universe [] = true)). Qed.
Print Assumptions switch_total_nilness_builtin.

(* nilness: both token switches of the *ir.If case handle every comparison operator go/ir emits *)
Theorem switch_total_nilness_compare :
  total_on (nilness ++ "op") (members gen_universes "token.compare") [] /\
  total_on (nilness ++ "op#1") (members gen_universes "token.compare") [].
Proof. exact (conj (total_on_chk _ _ _ (eq_refl true <: chk (nilness ++ "op") (members gen_universes "token.compare") [] = true))
                   (total_on_chk _ _ _ (eq_refl true <: chk (nilness ++ "op#1") (members gen_universes "token.compare") [] = true))). Qed.
Print Assumptions switch_total_nilness_compare.

(* unused: read / stmt / decl cover ast.Expr / ast.Stmt / ast.Decl up to Bad*, clause and label nodes *)
Theorem switch_total_unused_read :
  total_on (unused ++ "read:node.(type)") (members gen_universes "ast.Expr") ["*ast.BadExpr"].
Proof. exact (total_on_chk _ _ _ (eq_refl true <: chk (unused ++ "read:node.(type)") (members gen_universes "ast.Expr") ["*ast.BadExpr"] = true)). Qed.
Print Assumptions switch_total_unused_read.
Theorem switch_total_unused_stmt :
  total_on (unused ++ "stmt:stmt.(type)") (members gen_universes "ast.Stmt")
           ["*ast.BadStmt"; "*ast.CaseClause"; "*ast.CommClause"; "*ast.LabeledStmt"].
Proof. exact (total_on_chk _ _ _ (eq_refl true <: chk (unused ++ "stmt:stmt.(type)") (members gen_universes "ast.Stmt")
           ["*ast.BadStmt"; "*ast.CaseClause"; "*ast.CommClause"; "*ast.LabeledStmt"] = true)). Qed.
Print Assumptions switch_total_unused_stmt.
Theorem switch_total_unused_decl :
  total_on (unused ++ "decl:decl.(type)") (members gen_universes "ast.Decl") ["*ast.BadDecl"] /\
  total_on (unused ++ "decl:decl.Tok") (members gen_universes "token.gendecl") [].
Proof. exact (conj (total_on_chk _ _ _ (eq_refl true <: chk (unused ++ "decl:decl.(type)") (members gen_universes "ast.Decl") ["*ast.BadDecl"] = true))
                   (total_on_chk _ _ _ (eq_refl true <: chk (unused ++ "decl:decl.Tok") (members gen_universes "token.gendecl") [] = true))). Qed.
Print Assumptions switch_total_unused_decl.

(* go/ir builder (buildir): statement dispatch *)
Theorem switch_total_builder_stmt :
  total_on (builder ++ "stmt:_s.(type)") (members gen_universes "ast.Stmt") ["*ast.BadStmt"; "*ast.CaseClause"; "*ast.CommClause"].
Proof. exact (total_on_chk _ _ _ (eq_refl true <: chk (builder ++ "stmt:_s.(type)") (members gen_universes "ast.Stmt") ["*ast.BadStmt"; "*ast.CaseClause"; "*ast.CommClause"] = true)). Qed.
Print Assumptions switch_total_builder_stmt.
