(* C17 — U1000 verdicts are order-independent, monotone, merged over variants.
   ONLY statements closed by [exact]; each followed by Print Assumptions.
   Model: Model/C17_Graph.v (the colouring of unused.SerializedGraph), Model/C17_Merge.v (lintcmd/lint.go:lint). *)
From Coq Require Import String List NArith Bool Permutation.
Import ListNotations.
Require Import Verif.Model.C17_Graph Verif.Model.C17_Merge Verif.Model.C17_Check
               Verif.Proofs.C17_Graph Verif.Proofs.C17.
Require Import Verif.Gen.C17_LintShape Verif.Model.C17_Shape.
Open Scope N_scope.

(* Finite obligation on the regenerated transcription: unusedKey, the key literals, the statements of lint() that touch
   the used map, and color / colorAndQuieten / Results still have the shape the models were transcribed from. *)
Theorem c17_source_shape_ok : shape_ok gen_key_fields gen_key_literals gen_merge_shape gen_color_shape = true.
Proof. exact (eq_refl true). Qed.
Print Assumptions c17_source_shape_ok.

(* The package component of every unusedKey literal is a package PATH (res.Package.PkgPath): objects of different
   packages can then never share a key, so key_collision_only_suppresses cannot drop a report across packages. *)
Theorem c17_key_package_component_is_path : key_pkg_is_path gen_key_pkg_component = true.
Proof. exact (eq_refl true). Qed.
Print Assumptions c17_key_package_component_is_path.

(* The executable colouring (recursive DFS with fuel S n, as SerializedGraph.color) computes exactly reachability
   from the root inside 0..n-1, for every graph; fuel is always sufficient. *)
Theorem seenb_is_reachability : forall g x, seenb g x = true <-> seen g x.
Proof. exact seenb_iff. Qed.
Print Assumptions seenb_is_reachability.

Theorem quietb_is_owned_by_unseen : forall g x,
  quietb g x = true <-> exists u, u < gn g /\ ~ seen g u /\ owns_plus g u x.
Proof. exact (fun g x => iff_trans (quietb_iff g x) (quiet_iff_owns_plus g x)). Qed.
Print Assumptions quietb_is_owned_by_unseen.

(* Verdicts depend only on the SETS of use and own edges: any permutation or duplication of adjacency lists... *)
Theorem verdict_perm_invariant : forall g1 g2,
  gn g1 = gn g2 ->
  (forall x y, In y (guses g1 x) <-> In y (guses g2 x)) ->
  (forall x y, In y (gowns g1 x) <-> In y (gowns g2 x)) ->
  forall x, verdict g1 x = verdict g2 x.
Proof. exact (fun g1 g2 Hn Hu Ho => Verif.Proofs.C17.verdict_perm_invariant g1 g2 (conj Hn (conj Hu Ho))). Qed.
Print Assumptions verdict_perm_invariant.

(* ... and any renumbering of the nodes by a bijection that fixes the root. *)
Theorem verdict_renumbering_invariant : forall g1 g2 f finv, iso g1 g2 f finv ->
  forall x, x < gn g1 -> verdict g2 (f x) = verdict g1 x.
Proof. exact verdict_iso_invariant. Qed.
Print Assumptions verdict_renumbering_invariant.

(* Repeating the analysis into the same graph (every edge twice) or re-running the colouring after marking what was
   found used changes no verdict. *)
Theorem verdict_idempotent : forall g x, verdict (mark g) x = verdict g x /\ verdict (dup g) x = verdict g x.
Proof. exact (fun g x => conj (Verif.Proofs.C17.verdict_idempotent g x) (verdict_dup_invariant g x)). Qed.
Print Assumptions verdict_idempotent.

(* Adding a use edge a -> b (a reference to b from a) never makes a used object unused ... *)
Theorem verdict_monotone : forall g a b x, verdict g x = Used -> verdict (add_use g a b) x = Used.
Proof.
  exact (fun g a b x H => proj2 (proj1 (verdict_spec (add_use g a b) x))
           (Verif.Proofs.C17.verdict_monotone g a b x (proj1 (proj1 (verdict_spec g x)) H))).
Qed.
Print Assumptions verdict_monotone.

(* ... more generally, any graph homomorphism fixing the root (more edges, other numbering) preserves "used". *)
Theorem monotone_general : forall g1 g2 f, hom g1 g2 f -> forall x, seen g1 x -> seen g2 (f x).
Proof. exact Verif.Proofs.C17.monotone_general. Qed.
Print Assumptions monotone_general.

Theorem unused_edge_irrelevant : forall g a b, ~ seen g a -> forall x, seen (add_use g a b) x <-> seen g x.
Proof. exact Verif.Proofs.C17.unused_edge_irrelevant. Qed.
Print Assumptions unused_edge_irrelevant.

(* What the boolean checks evaluated on exported graphs establish, for all nodes. *)
Theorem exported_isomorphic_graphs_agree : forall c1 c2 pi pinv, iso_b c1 c2 pi pinv = true ->
  forall x, x < N.of_nat (length c1) -> verdict (of_cgraph c2) (pif pi x) = verdict (of_cgraph c1) x.
Proof. exact iso_b_verdicts. Qed.
Print Assumptions exported_isomorphic_graphs_agree.

Theorem exported_extended_graph_keeps_used : forall c1 c2 pi, hom_b c1 c2 pi = true ->
  forall x, verdict (of_cgraph c1) x = Used -> verdict (of_cgraph c2) (pif pi x) = Used.
Proof. exact hom_b_used. Qed.
Print Assumptions exported_extended_graph_keeps_used.

(* Variant merge: the map-based code of lint() computes the declarative specification, ... *)
Theorem merge_impl_is_spec : forall rs, merge_impl rs = merge_spec rs.
Proof. exact merge_impl_eq_spec. Qed.
Print Assumptions merge_impl_is_spec.

(* ... a key is reported iff some variant with U1000 enabled lists it unused and NO variant lists it used, ... *)
Theorem merge_variants_iff : forall rs k,
  In k (map fst (merge_impl rs)) <->
  (exists r o, In r rs /\ r_allowed r = true /\ In o (r_unused r) /\ key_of (r_pkg r) o = k) /\
  (forall r o, In r rs -> In o (r_used r) -> key_of (r_pkg r) o <> k).
Proof. exact Verif.Proofs.C17.merge_variants_iff. Qed.
Print Assumptions merge_variants_iff.

(* ... independently of the order in which the runner returns the variants, ... *)
Theorem merge_order_invariant : forall rs rs', Permutation rs rs' -> Permutation (merge_impl rs) (merge_impl rs').
Proof. exact Verif.Proofs.C17.merge_order_invariant. Qed.
Print Assumptions merge_order_invariant.

(* ... and objects that collide on a key can only lose reports, never gain one. *)
Theorem key_collision_only_suppresses : forall rs k o, In (k, o) (merge_impl rs) ->
  exists r, In r rs /\ r_allowed r = true /\ In o (r_unused r) /\ k = key_of (r_pkg r) o /\
            used_somewhere rs k = false.
Proof. exact Verif.Proofs.C17.key_collision_only_suppresses. Qed.
Print Assumptions key_collision_only_suppresses.
