(* C11 — check selection, config inheritance, exit status and formats agree.
   ONLY statements closed by [exact]; each followed by Print Assumptions.
   Gen/C11_Names.v (check names, non-default checks, the literals filterAnalyzerNames / mergeLists /
   printDiagnostics compare with) is regenerated from /repo on every run. *)
From Coq Require Import List ZArith Bool String.
Import ListNotations.
Require Import Verif.Gen.C11_Names Verif.Model.C11 Verif.Model.C11_Check Verif.Proofs.C11.
Open Scope string_scope.
Open Scope list_scope.

(* ---- finite obligations on the regenerated tables ---- *)
(* premise ascii_names of the model: names are printable ASCII, contain a digit, are distinct after folding *)
Theorem c11_ascii_names : names_ok gen_analyzer_names gen_non_ascii_name_chars = true.
Proof. exact (eq_refl true). Qed.
Print Assumptions c11_ascii_names.

Theorem c11_literals_ok : literals_ok = true.
Proof. exact (eq_refl true). Qed.
Print Assumptions c11_literals_ok.

(* ---- selection ---- *)
(* the allow map computed by the loop is: the LAST element of the selection that matches a name decides *)
Theorem filter_last_match :
  forall (all sel : list string) (a : string), lookup (filter_names all sel) a = last_match all sel a.
Proof. exact filter_last_match_gen. Qed.
Print Assumptions filter_last_match.

Theorem last_match_decides :
  forall all sel a,
    (forall b, last_match all sel a = Some b <->
       exists l1 s l2, sel = l1 ++ s :: l2 /\ matches all (pattern_of s) a = true /\ sign_of s = b /\
                       forall s', In s' l2 -> matches all (pattern_of s') a = false) /\
    (last_match all sel a = None <-> forall s, In s sel -> matches all (pattern_of s) a = false).
Proof. exact (fun all sel a => conj (fun b => last_match_some all sel a b) (last_match_none all sel a)). Qed.
Print Assumptions last_match_decides.

(* the documented matching relation: *, all; C* (letters only) = category; P* with a digit = prefix; else exact *)
Theorem glob_all : forall all a, matches all "*" a = mem a all /\ matches all "all" a = mem a all.
Proof. exact all_glob. Qed.
Print Assumptions glob_all.
Theorem glob_category :
  forall all p a, p <> "" -> has_digit p = false ->
    matches all (p ++ "*")%string a = mem a all && String.eqb p (letter_prefix a).
Proof. exact category_glob. Qed.
Print Assumptions glob_category.
Theorem glob_prefix :
  forall all p a, has_digit p = true -> matches all (p ++ "*")%string a = mem a all && has_prefix p a.
Proof. exact prefix_glob. Qed.
Print Assumptions glob_prefix.
Theorem exact_name :
  forall all pat a, ends_star pat = false -> pat <> "all" -> matches all pat a = String.eqb pat a.
Proof. exact literal_name. Qed.
Print Assumptions exact_name.

(* ---- configuration inheritance ---- *)
Theorem merge_assoc : forall a b c, merge_lists a (merge_lists b c) = merge_lists (merge_lists a b) c.
Proof. exact merge_assoc_gen. Qed.
Print Assumptions merge_assoc.
Theorem merge_unset_inherits : forall a, merge_opt a None = a.
Proof. exact (fun a => eq_refl). Qed.
Print Assumptions merge_unset_inherits.
Theorem merge_set_overrides : forall a l, ~ In "inherit" l -> merge_opt a (Some l) = l.
Proof. exact merge_no_inherit. Qed.
Print Assumptions merge_set_overrides.
(* folding Merge from the default over the files, outermost first, is: the innermost set list with
   "inherit" replaced by the effective list one level further out *)
Theorem inherit_splices : forall default cs, merge_configs default cs = splice default (rev cs).
Proof. exact inherit_splices_gen. Qed.
Print Assumptions inherit_splices.
(* normalizeList's panic is unreachable when the default list has no "inherit" *)
Theorem no_unresolved_inherit :
  forall default cs, ~ In "inherit" default -> ~ In "inherit" (merge_configs default cs).
Proof. exact (fun default cs H => eq_ind_r (fun l => ~ In "inherit" l) (no_inherit_left default (rev cs) H) (inherit_splices default cs)). Qed.
Print Assumptions no_unresolved_inherit.
(* removing adjacent duplicates does not change the selection *)
Theorem normalize_preserves : forall all l a, allowed all (normalize l) a = allowed all l a.
Proof. exact normalize_preserves_gen. Qed.
Print Assumptions normalize_preserves.
(* the command-line list is merged over the package's list; the flag's default [inherit] is the identity *)
Theorem cli_over_pkg :
  forall default cs cli,
    effective_checks default cs cli = merge_opt (normalize (splice default (rev cs))) cli /\
    effective_checks default cs (Some ["inherit"]) = normalize (splice default (rev cs)).
Proof.
  exact (fun default cs cli =>
    conj (f_equal (fun l => merge_opt (normalize l) cli) (inherit_splices default cs))
         (eq_trans (merge_inherit_id _) (f_equal normalize (inherit_splices default cs)))).
Qed.
Print Assumptions cli_over_pkg.

(* ---- printed problems and exit status ---- *)
(* selection only filters: a problem is kept iff its check is allowed *)
Theorem print_subset :
  forall all checks ps p, In p (success all checks ps) <-> In p ps /\ allowed all checks (p_cat p) = true.
Proof. exact print_subset_gen. Qed.
Print Assumptions print_subset.

Theorem exit_iff :
  forall f all fail si nc ps,
    exit_status f all fail si nc ps = 1%Z <->
    f <> FSarif /\ exists p, In p ps /\ shown si nc p = true /\ should_exit all fail (p_cat p) = true.
Proof. exact exit_iff_gen. Qed.
Print Assumptions exit_iff.
Theorem exit_zero_or_one :
  forall f all fail si nc ps, exit_status f all fail si nc ps = 0%Z \/ exit_status f all fail si nc ps = 1%Z.
Proof. exact exit_never_other. Qed.
Print Assumptions exit_zero_or_one.
(* a problem counts iff -fail's last matching element allows its check, or it is a compile/config/directive error *)
Theorem fail_set :
  forall all fail cat,
    should_exit all fail cat = true <->
    In (lower cat) ["staticcheck"; "compile"; "config"] \/
    last_match (map lower all) (map lower fail) (lower cat) = Some true.
Proof. exact should_exit_spec. Qed.
Print Assumptions fail_set.
(* without -show-ignored an ignored problem neither is printed nor counts *)
Theorem ignored_not_shown : forall nc p, p_sev p = SevIgnored -> shown false nc p = false.
Proof. exact ignored_not_shown_gen. Qed.
Print Assumptions ignored_not_shown.

Theorem printed_are_shown :
  forall all fail si nc ps q, In q (to_print all fail si nc ps) ->
    exists p, In p ps /\ shown si nc p = true /\ render q = render p.
Proof. exact printed_from_shown. Qed.
Print Assumptions printed_are_shown.
Theorem shown_are_printed :
  forall all fail si nc ps p, In p ps -> shown si nc p = true -> In (render p) (map render (to_print all fail si nc ps)).
Proof. exact shown_all_printed. Qed.
Print Assumptions shown_are_printed.
(* text, stylish, JSON and SARIF render the same problems (in the model: definitional; tied by parsing all four) *)
Theorem formats_same_set :
  forall f f' ps, f <> FNull -> f' <> FNull -> format_output f ps = format_output f' ps.
Proof. exact formats_same_gen. Qed.
Print Assumptions formats_same_set.

(* lint(): the compile/config errors of a package that failed to load are kept also when the package is only
   in the import cone of the packages named on the command line, and any such problem makes the run exit 1 *)
Theorem failed_dep_kept :
  forall all eff ps p, In p ps -> load_error (p_cat p) = true -> In p (lint_package all eff PFailedDep ps).
Proof. exact failed_dep_kept_gen. Qed.
Print Assumptions failed_dep_kept.
Theorem load_error_exits_nonzero :
  forall f all fail si l p,
    f <> FSarif -> In p l -> load_error (p_cat p) = true -> shown si false p = true ->
    exit_status f all fail si false l = 1%Z.
Proof. exact load_error_exit_gen. Qed.
Print Assumptions load_error_exits_nonzero.

(* a configuration chain with an undecodable file (syntax error or a value of the wrong type) fails to load;
   the resulting load error is printed and counted like any compile/config error (failed_dep_kept,
   load_error_exits_nonzero) *)
Theorem undecodable_conf_fails :
  forall chain, load_fails chain = true <-> exists c, In c chain /\ (c = ConfSyntaxError \/ c = ConfMistyped).
Proof. exact undecodable_conf_fails_gen. Qed.
Print Assumptions undecodable_conf_fails.
