(* C09 — pattern bindings: alternatives are atomic, names bind consistently, both Binding spellings are
   interchangeable. ONLY statements closed by [exact]; each followed by Print Assumptions.
   gen_cfg (wrapper switches, frame operations of Or.Match / Not.Match, Matcher.merge, tokensByString,
   go/ast Expr/Stmt types) is regenerated from /repo on every run, so [eq_refl] below is re-checked
   against what pattern/match.go says now.
     match_impl = run_impl : Matcher.Match with its State, frame stack and 1<<idx masks
     match_spec = run_spec : purely functional backtracking over the State
   The oracle (go/types for the type-aware nodes), both fuels and the tree are universally quantified. *)
From Coq Require Import List String ZArith NArith Bool.
Import ListNotations.
Require Import Verif.Model.C09_Types Verif.Gen.C09_Matcher Verif.Model.C09
               Verif.Proofs.C09_Frames Verif.Proofs.C09 Verif.Proofs.C09_Spelling.

(* not_framed (Not pushes a frame and always pops it), the Or discipline (push / merge / pop) and a merge
   that hands the merged bits to the enclosing frame: finite obligation on the transcribed code shape. *)
Theorem c09_cfg_ok : cfg_ok gen_cfg = true.
Proof. exact (eq_refl true). Qed.
Print Assumptions c09_cfg_ok.

(* THE PROPERTY. If every Binding carries the position of its name in Pattern.Bindings (idx_inj; at most
   64 names) then, for every pattern, tree, oracle and fuel: whenever Matcher.Match reports success with
   State sigma, the reference semantics succeeds with the same value and exactly the State sigma. *)
Theorem impl_sound :
  forall orc mapping af fuel p t v sigma,
    idx_inj_b mapping p = true ->
    run_impl gen_cfg orc mapping af fuel p t = RDone true v sigma ->
    run_spec gen_cfg orc af fuel p t = RDone true v sigma.
Proof.
  exact (fun orc mapping af fuel p t v sigma Hi =>
           impl_sound_gen gen_cfg orc mapping af fuel p t v sigma c09_cfg_ok
                          (proj1 (idx_inj_b_inv mapping p Hi)) (proj2 (idx_inj_b_inv mapping p Hi))).
Qed.
Print Assumptions impl_sound.

(* Also for failure: a Match that returns (does not panic) returns what the reference semantics returns. *)
Theorem impl_agrees :
  forall orc mapping af fuel p t ok v sigma,
    idx_inj_b mapping p = true ->
    run_impl gen_cfg orc mapping af fuel p t = RDone ok v sigma ->
    exists vs ss, run_spec gen_cfg orc af fuel p t = RDone ok vs ss /\ (ok = true -> vs = v /\ ss = sigma).
Proof.
  exact (fun orc mapping af fuel p t ok v sigma Hi =>
           impl_agrees_gen gen_cfg orc mapping af fuel p t ok v sigma c09_cfg_ok
                           (proj1 (idx_inj_b_inv mapping p Hi)) (proj2 (idx_inj_b_inv mapping p Hi))).
Qed.
Print Assumptions impl_agrees.

(* An Or that succeeds anywhere inside a match ends in exactly the State its first matching alternative
   produces when run alone from the State before the Or; the alternatives before it fail from that State. *)
Theorem or_atomic :
  forall orc mapping af fuel ps r st f rest B v st' stk,
    List.length mapping <= 64 -> wf_pat_b mapping (POr ps) = true ->
    frame_inv mapping B st f -> unwrap (cfg_unwrap_right gen_cfg) r = UNo ->
    mi gen_cfg orc mapping af (S fuel) (POr ps) r (st, f :: rest) = RDone true v (st', stk) ->
    exists pre q post, ps = (pre ++ q :: post)%list /\
      Forall (fun q' => exists v' s', ms gen_cfg orc af fuel q' r st = RDone false v' s') pre /\
      ms gen_cfg orc af fuel q r st = RDone true v st'.
Proof.
  exact (fun orc mapping af fuel ps r st f rest B v st' stk Hl =>
           or_atomic_gen gen_cfg orc mapping af fuel ps r st f rest B v st' stk c09_cfg_ok Hl).
Qed.
Print Assumptions or_atomic.

(* A Not leaves State and frame stack exactly as they were, whatever its operand bound. *)
Theorem not_no_leak :
  forall orc mapping af fuel q r st f rest B ok v m',
    List.length mapping <= 64 -> wf_pat_b mapping (PNot q) = true ->
    frame_inv mapping B st f -> unwrap (cfg_unwrap_right gen_cfg) r = UNo ->
    mi gen_cfg orc mapping af (S fuel) (PNot q) r (st, f :: rest) = RDone ok v m' ->
    m' = (st, f :: rest).
Proof.
  exact (fun orc mapping af fuel q r st f rest B ok v m' Hl =>
           not_no_leak_gen gen_cfg orc mapping af fuel q r st f rest B ok v m' c09_cfg_ok Hl).
Qed.
Print Assumptions not_no_leak.

(* A recalled name matched successfully only against a subtree the matcher's value-against-value
   comparison accepts, and recalling changes nothing (implementation and reference semantics). *)
Theorem rebind_equal :
  forall orc mapping af fuel n idx sub r m w v m',
    is_nilpat sub = true -> lookup n (fst m) = Some w -> unwrap (cfg_unwrap_right gen_cfg) r = UNo ->
    mi gen_cfg orc mapping af (S fuel) (PBinding n idx sub) r m = RDone true v m' ->
    am gen_cfg orc af w r = ADone true v /\ m' = m.
Proof. exact (rebind_equal_impl gen_cfg). Qed.
Print Assumptions rebind_equal.

Theorem rebind_equal_reference :
  forall orc af fuel n idx sub r st w v st',
    is_nilpat sub = true -> lookup n st = Some w -> unwrap (cfg_unwrap_right gen_cfg) r = UNo ->
    ms gen_cfg orc af (S fuel) (PBinding n idx sub) r st = RDone true v st' ->
    am gen_cfg orc af w r = ADone true v /\ st' = st.
Proof. exact (rebind_equal_spec gen_cfg). Qed.
Print Assumptions rebind_equal_reference.

(* `name` = (Binding "name" nil) and `name@pat` = (Binding "name" pat): parsed patterns that agree up to
   the spelling (same names, same indices) are indistinguishable. *)
Theorem spellings_equal :
  forall orc mapping af fuel p1 p2 t,
    norm_pat p1 = norm_pat p2 ->
    run_impl gen_cfg orc mapping af fuel p1 t = run_impl gen_cfg orc mapping af fuel p2 t /\
    run_spec gen_cfg orc af fuel p1 t = run_spec gen_cfg orc af fuel p2 t.
Proof. exact (spellings_equal_gen gen_cfg). Qed.
Print Assumptions spellings_equal.

(* pop deletes exactly the names whose bit is set in the popped frame. *)
Theorem pop_only_own :
  forall mapping f st i n,
    NoDup mapping -> nth_error mapping i = Some n ->
    lookup n (pop_state mapping f st) = if N.testbit f (N.of_nat i) then None else lookup n st.
Proof. exact pop_only_own_gen. Qed.
Print Assumptions pop_only_own.
