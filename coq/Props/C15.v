(* C15 — nilness facts are sound with respect to real executions. *)
From Coq Require Import List Arith Bool.
Import ListNotations.
Require Import Verif.Model.C13 Verif.Model.C13_Nilness Verif.Model.C15 Verif.Proofs.C15.
