(* C15 — nilness facts are sound with respect to real executions; SA4023 consequence.
   ONLY statements closed by [exact]; each followed by Print Assumptions. *)
From Coq Require Import List Arith Bool.
Import ListNotations.
Require Import Verif.Model.C13 Verif.Model.C13_Nilness Verif.Model.C15 Verif.Gen.C15_SA4023 Verif.Model.C15_Check.
Require Import Verif.Proofs.C13 Verif.Proofs.C15.

(* the concretisation of a merge contains the concretisations of both arguments (table regenerated) *)
Theorem merge_sound : forall (a b : vn) (sh : shape),
  gamma a sh = true \/ gamma b sh = true -> gamma (merge a b) sh = true.
Proof. exact Verif.Proofs.C15.merge_sound. Qed.
Print Assumptions merge_sound.

(* every instruction kind: if the abstract state covers the environment and the instruction executes (does not
   panic / block), the abstract post-state covers the new environment, including refined operands *)
Theorem transfer_sound : forall (f : func) (tb : option bool) (s : st) (r : env) (i : instr) (r' : env),
  covers f s r -> env_wf f r -> exec f tb r i r' ->
  covers f (process_instr f tb s i) r' /\ env_wf f r'.
Proof. exact Verif.Proofs.C15.transfer_sound. Qed.
Print Assumptions transfer_sound.

(* any solution of the flow equations covers every environment reachable along any CFG path from the entry *)
Theorem mfp_covers_paths : forall (f : func), wf_func_b f = true ->
  forall sol : @state st,
  is_fixpoint_b (fsuccs f) (ntransfer f) (nentry f) (get_in sol) (get_out sol) = true ->
  forall r0 b r, init_env_ok f r0 -> reach f r0 b r -> b < length (f_blocks f) ->
  covers f (get_in sol b) r /\ env_wf f r.
Proof. exact Verif.Proofs.C15.mfp_covers_paths. Qed.
Print Assumptions mfp_covers_paths.

(* for every function of the mini-IR, every schedule of the solver, every initial environment, every execution that
   returns normally and every pointer-like result k: the shape of the returned value (outer and inner) lies in the
   concretisation of the exported fact. Callee facts are premises of the execution relation (assume-guarantee). *)
Theorem nilness_sound : forall (f : func) (pick : list nat -> nat) (fuel : nat) (facts : list vn)
                               (r0 : env) (k : nat) (sh : shape),
  wf_func_b f = true ->
  analyse f pick fuel = Some facts ->
  init_env_ok f r0 -> returns f r0 k sh -> k < length (f_results f) ->
  fst (nth k (f_results f) (false, false)) = true ->
  gamma (nth k facts MM) sh = true.
Proof. exact nilness_sound_run. Qed.
Print Assumptions nilness_sound.

(* SA4023 reads Result.Nilness(...).Outer == <regenerated constant>: a flagged result is never a nil interface *)
Theorem sa4023_sound : forall (f : func) (pick : list nat -> nat) (fuel : nat) (facts : list vn)
                              (r0 : env) (k : nat) (sh : shape),
  wf_func_b f = true ->
  analyse f pick fuel = Some facts ->
  init_env_ok f r0 -> returns f r0 k sh -> k < length (f_results f) ->
  fst (nth k (f_results f) (false, false)) = true ->
  sa4023_flags (nth k facts MM) = true ->
  outer_nil sh = false.
Proof.
  exact (fun f pick fuel facts r0 k sh WF A I R Hk Pk Fl =>
    sa4023_sound_flags _ sh Fl (nilness_sound_run f pick fuel facts r0 k sh WF A I R Hk Pk)).
Qed.
Print Assumptions sa4023_sound.
