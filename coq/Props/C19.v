(* C19 — structlayout matches the compiler; optimize never grows a struct.
   ONLY statements closed by [exact]; each followed by Print Assumptions.
   gen_tables (basicSizes, the word multiples of Sizeof's constant cases), gen_arches (ForArch) and gen_less_chain
   (byAlignAndSize.Less) are regenerated from /repo on every run, so the [eq_refl]s below are re-checked against
   what the code says now.  arch_ok a: WordSize = MaxAlign = 4 or 8.  wf_ty: array lengths are not negative. *)
From Coq Require Import List ZArith Bool Permutation String.
Import ListNotations.
Require Import Verif.Model.C19_Types Verif.Gen.C19_BasicSizes Verif.Gen.C19_Optimize Verif.Model.C19 Verif.Model.C19_Check.
Require Import Verif.Proofs.C19 Verif.Proofs.C19_Optimize Verif.Proofs.C19_Layout Verif.Proofs.C19_Main.
Open Scope Z_scope.

(* ---- finite obligations on the regenerated tables ---- *)
Theorem c19_tables_ok : gen_tables = std_tables.
Proof. exact (eq_refl std_tables). Qed.
Print Assumptions c19_tables_ok.

Theorem c19_chain_ok : gen_less_chain = std_chain.
Proof. exact (eq_refl std_chain). Qed.
Print Assumptions c19_chain_ok.

(* ForArch agrees with the compiler's (PtrSize, RegSize) on the architectures the theorems are stated for *)
Theorem c19_arch_table_ok :
  for_arch gen_arches gen_arch_default "386" = (4, 4) /\ for_arch gen_arches gen_arch_default "arm" = (4, 4)
  /\ for_arch gen_arches gen_arch_default "amd64" = (8, 8) /\ for_arch gen_arches gen_arch_default "arm64" = (8, 8).
Proof. exact (conj eq_refl (conj eq_refl (conj eq_refl eq_refl))). Qed.
Print Assumptions c19_arch_table_ok.

(* ---- gcsizes ---- *)
(* offsets are non-decreasing multiples of the fields' alignments, fields do not overlap and end within the struct;
   the size is a multiple of the alignment, which is a power of two <= MaxAlign and a multiple of every field's *)
Theorem offsets_ok :
  forall a fs, arch_ok a -> wf_ty (TStruct fs) -> struct_offsets_ok gen_tables a fs.
Proof. exact (offsets_ok_gen gen_tables c19_tables_ok). Qed.
Print Assumptions offsets_ok.

(* gcsizes computes exactly what the gc rules (cmd/compile/internal/types.CalcSize, transcribed as gc_sa) give,
   for every type *)
Theorem gcsizes_eq_gc :
  forall a t, arch_ok a -> wf_ty t ->
    sizeof gen_tables a t = gc_sizeof a t /\ alignof gen_tables a t = gc_alignof a t
    /\ offsetsof gen_tables a t = gc_offsetsof a t.
Proof. exact (gcsizes_eq_gc_gen gen_tables c19_tables_ok). Qed.
Print Assumptions gcsizes_eq_gc.

(* ---- structlayout ---- *)
(* the printed lines (fields and padding) cover [0, Sizeof) contiguously, and the non-padding lines are exactly the
   leaves, in order, at the compiler's offsets, with its alignments and sizes (a zero-size leaf may be shown with
   size 1: the byte gc adds after a trailing zero-size field) *)
Theorem layout_tiles :
  forall a fs, arch_ok a -> wf_ty (TStruct fs) -> layout_matches_gc gen_tables a fs.
Proof. exact (layout_tiles_gen gen_tables c19_tables_ok). Qed.
Print Assumptions layout_tiles.

(* ---- structlayout-optimize ---- *)
(* whatever order sort.Sort leaves the units in, the non-padding output lines are those units (name, size,
   alignment): a permutation of the input fields.  Any input. *)
Theorem optimize_perm :
  forall recurse inp l', Permutation (units_of recurse inp) l' ->
    Permutation (map strip (units_of recurse inp)) (map strip (nonpad (pad_units l'))).
Proof. exact optimize_perm_gen. Qed.
Print Assumptions optimize_perm.

(* without -r the units are the top-level fields, one each, in order; each is aligned like its most strictly aligned
   leaf; together they fit the struct even when each is rounded up to its own alignment *)
Theorem combine_faithful :
  forall a fs, arch_ok a -> wf_ty (TStruct fs) ->
    let t := TStruct fs in
    map e_path (combine (layout gen_tables a t)) = map (fun g => [g]) (seq 0 (List.length fs))
    /\ Forall (fun u => e_pad u = false /\ unit_wf u /\ (e_align u | alignof gen_tables a t)) (combine (layout gen_tables a t))
    /\ rsum (combine (layout gen_tables a t)) <= sizeof gen_tables a t.
Proof. exact (combine_faithful_gen gen_tables c19_tables_ok). Qed.
Print Assumptions combine_faithful.

(* the output is a valid layout of the units in the order chosen: contiguous from 0, every unit at a multiple of its
   alignment with its size and alignment unchanged, total a multiple of the largest alignment *)
Theorem optimize_valid :
  forall a fs recurse l', arch_ok a -> wf_ty (TStruct fs) ->
    Permutation (units_of recurse (layout gen_tables a (TStruct fs))) l' -> valid_layout l' (pad_units l').
Proof. exact (optimize_valid_gen gen_tables c19_tables_ok). Qed.
Print Assumptions optimize_valid.

(* for EVERY struct type and EVERY order that is sorted w.r.t. byAlignAndSize.Less (sort.Sort is unstable), with
   and without -r: the padded size of the output is at most that of structlayout's layout *)
Theorem optimize_not_larger :
  forall a fs recurse l', arch_ok a -> wf_ty (TStruct fs) ->
    let inp := layout gen_tables a (TStruct fs) in
    Permutation (units_of recurse inp) l' -> sorted_by (less_chain gen_less_chain) l' ->
    total (pad_units l') <= total inp.
Proof. exact (optimize_not_larger_gen gen_tables gen_less_chain c19_tables_ok c19_chain_ok). Qed.
Print Assumptions optimize_not_larger.

(* the model's optimize (the function compared with the real command on every run) is such an order ... *)
Theorem optimize_instance :
  forall recurse inp, inp <> [] ->
    exists l', optimize gen_less_chain recurse inp = pad_units l'
               /\ Permutation (units_of recurse inp) l' /\ sorted_by (less_chain gen_less_chain) l'.
Proof. exact (optimize_instance_gen gen_less_chain c19_chain_ok). Qed.
Print Assumptions optimize_instance.

(* ... so the predicate the check evaluates on the command's real output holds of the model for every struct type *)
Theorem optimize_model_not_larger :
  forall a fs recurse, arch_ok a -> wf_ty (TStruct fs) ->
    opt_not_larger_b (layout gen_tables a (TStruct fs))
                     (optimize gen_less_chain recurse (layout gen_tables a (TStruct fs))) = true.
Proof. exact (optimize_model_not_larger_gen gen_tables gen_less_chain c19_tables_ok c19_chain_ok). Qed.
Print Assumptions optimize_model_not_larger.

(* when every unit's size is a multiple of its alignment the sorted order is optimal among all orders *)
Theorem optimize_minimal :
  forall units l' any,
    Forall unit_wf units -> Forall (fun e => (e_align e | e_size e)) units ->
    Permutation units l' -> sorted_by (less_chain gen_less_chain) l' -> Permutation units any ->
    total (pad_units l') <= total (pad_units any).
Proof. exact (optimize_minimal_gen gen_less_chain c19_chain_ok). Qed.
Print Assumptions optimize_minimal.
