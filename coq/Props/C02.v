(* C02 — built IR is well-formed, strictly dominated, consistently typed SSA.
   ONLY statements closed by [exact]; each followed by Print Assumptions.
   The theorems are about the validator [wf_ssa] (Model/C02.v) for ALL serialised functions; go/ir's
   builder, lifter and block optimiser are validated per built function by evaluating wf_ssa on their
   output (checks/C02.py).  Nothing depends on go/ir/sanity.go. *)
From Coq Require Import List NArith Bool Permutation.
Import ListNotations.
Require Import Verif.Lib.Graphs Verif.Model.C02 Verif.Proofs.C02_Paths Verif.Proofs.C02 Verif.Proofs.C02_Types Verif.Proofs.C02_Main.
Local Open Scope N_scope.

(* Def dominates use, semantically: on EVERY instruction-level walk (any length) from the function entry
   to a non-phi use - falling through a block, following CFG edges, or resuming at the Recover block
   from anywhere once a Defer or Call has been executed - the instruction defining each operand has been
   executed earlier; that instruction exists, belongs to the function and defines a value. *)
Theorem wf_ssa_sound : forall T f, wf_ssa T f = true ->
  forall B j i s ty,
  instr_at f B j = Some i -> kind_eqb (i_kind i) KPhi = false -> In (VI s, ty) (i_ops i) ->
  exists D k idef, instr_at f D k = Some idef /\ i_seq idef = s /\ is_value idef = true /\
    forall h, ipath f (B, j) h -> In (D, k) h.
Proof. exact wf_def_before_use. Qed.
Print Assumptions wf_ssa_sound.

(* Phi operands: every walk that reaches the END of the e-th predecessor has executed the definition of
   the e-th edge. *)
Theorem wf_ssa_sound_phi : forall T f, wf_ssa T f = true ->
  forall B j i e s ty P,
  instr_at f B j = Some i -> kind_eqb (i_kind i) KPhi = true ->
  nth_error (i_ops i) e = Some (VI s, ty) -> nth_error (b_preds (blk f B)) e = Some P ->
  exists D k idef, instr_at f D k = Some idef /\ i_seq idef = s /\ is_value idef = true /\
    forall h last, last + 1 = blen f P -> ipath f (P, last) h -> In (D, k) ((P, last) :: h).
Proof. exact wf_def_before_phi_edge. Qed.
Print Assumptions wf_ssa_sound_phi.

(* Preds/Succs are mutual inverses as multisets, and BasicBlock.Index is the position in Blocks. *)
Theorem wf_inverse_preds_succs : forall T f, wf_ssa T f = true ->
  forall a b bla blb,
  nth_error (f_blocks f) (N.to_nat a) = Some bla -> nth_error (f_blocks f) (N.to_nat b) = Some blb ->
  count b (b_succs bla) = count a (b_preds blb).
Proof. exact wf_preds_succs_inverse. Qed.
Print Assumptions wf_inverse_preds_succs.

Theorem wf_index_is_position : forall T f, wf_ssa T f = true ->
  forall b bl, nth_error (f_blocks f) (N.to_nat b) = Some bl -> b_index bl = b.
Proof. exact wf_block_index. Qed.
Print Assumptions wf_index_is_position.

(* Operands/Referrers are mutual inverses as multisets: the referrer list of a value is a permutation of
   its users (one entry per operand slot); instructions without a referrer list define no value. *)
Theorem wf_inverse_operands_referrers : forall T f, wf_ssa T f = true ->
  forall i, In i (all_instrs f) ->
  match i_refs i with
  | Some r => Permutation r (uses f (VI (i_seq i))) /\ i_ty i <> 0
  | None => i_ty i = 0
  end.
Proof. exact wf_referrers_inverse. Qed.
Print Assumptions wf_inverse_operands_referrers.

Theorem wf_inverse_operands_referrers_locals : forall T f, wf_ssa T f = true ->
  (forall n l, nth_error (f_params f) (N.to_nat n) = Some l -> Permutation (l_refs l) (uses f (VP n))) /\
  (forall n l, nth_error (f_free f) (N.to_nat n) = Some l -> Permutation (l_refs l) (uses f (VF n))) /\
  (forall n l, nth_error (f_anons f) (N.to_nat n) = Some l -> Permutation (l_refs l) (uses f (VA n))).
Proof. exact wf_local_referrers_inverse. Qed.
Print Assumptions wf_inverse_operands_referrers_locals.

(* Phis lead their block with exactly one operand per predecessor. *)
Theorem wf_phis : forall T f, wf_ssa T f = true ->
  forall b bl k i,
  nth_error (f_blocks f) (N.to_nat b) = Some bl -> nth_error (b_instrs bl) k = Some i ->
  kind_eqb (i_kind i) KPhi = true ->
  length (i_ops i) = length (b_preds bl) /\
  forall k', (k' < k)%nat -> exists i', nth_error (b_instrs bl) k' = Some i' /\ kind_eqb (i_kind i') KPhi = true.
Proof. exact wf_phi_shape. Qed.
Print Assumptions wf_phis.

(* Every block ends in exactly one terminator whose arity matches its successor list. *)
Theorem wf_one_terminator : forall T f, wf_ssa T f = true ->
  forall b bl, nth_error (f_blocks f) (N.to_nat b) = Some bl ->
  exists pre last, b_instrs bl = pre ++ [last] /\ is_terminator (i_kind last) = true /\
    arity_ok last (len_N (b_succs bl)) = true /\ forall i, In i pre -> is_terminator (i_kind i) = false.
Proof. exact wf_terminators. Qed.
Print Assumptions wf_one_terminator.

(* Every instruction satisfies the declarative typing judgement (Proofs/C02_Types.v). *)
Theorem wf_typed : forall T f, wf_ssa T f = true -> forall i, In i (all_instrs f) -> instr_typed T f i.
Proof. exact wf_types. Qed.
Print Assumptions wf_typed.
