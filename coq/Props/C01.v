(* C01 — IR preserves program semantics (partial): statements about the executable IR semantics.
   ONLY statements closed by [exact]; each followed by Print Assumptions. *)
From Coq Require Import List ZArith NArith PArith Bool.
Import ListNotations.
Require Import Verif.Model.C01_IRSem Verif.Proofs.C01.

(* More fuel never changes an outcome other than OutOfFuel. *)
Theorem irsem_fuel_monotone :
  forall n p st o, run n p st = o -> o <> OutOfFuel -> forall m, (n <= m)%nat -> run m p st = o.
Proof. exact run_mono. Qed.
Print Assumptions irsem_fuel_monotone.

(* The semantics is deterministic: an execution has at most one outcome, whatever fuel is supplied. *)
Theorem irsem_deterministic :
  forall p st o1 o2, terminates_with p st o1 -> terminates_with p st o2 -> o1 = o2.
Proof. exact terminates_deterministic. Qed.
Print Assumptions irsem_deterministic.
