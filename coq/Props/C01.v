(* C01 — IR preserves program semantics (PARTIAL): statements about the executable IR semantics
   Model/C01_IRSem.v ("the documented meaning of each instruction", go/ir/ssa.go).
   ONLY statements closed by [exact]; each followed by Print Assumptions.

   What is NOT proved: that the IR built by go/ir (builder.go, lift.go, blockopt.go, ...) for a Go
   source program behaves like the program compiled by the Go toolchain.  That statement is kept below as
   [ir_refines_source_full_statement]; it is checked differentially on every run of ./check C01. *)
From Coq Require Import List ZArith NArith PArith Bool FMapPositive.
Import ListNotations.
Require Import Verif.Model.C01_IRSem Verif.Model.C01_SSA Verif.Model.C01_Check Verif.Proofs.C01 Verif.Proofs.C01_SSA.

(* More fuel never changes an outcome other than OutOfFuel. *)
Theorem irsem_fuel_monotone :
  forall n p st o, run n p st = o -> o <> OutOfFuel -> forall m, (n <= m)%nat -> run m p st = o.
Proof. exact run_mono. Qed.
Print Assumptions irsem_fuel_monotone.

(* The semantics is deterministic: an execution has at most one outcome, whatever fuel is supplied. *)
Theorem irsem_deterministic :
  forall p st o1 o2, terminates_with p st o1 -> terminates_with p st o2 -> o1 = o2.
Proof. exact terminates_deterministic. Qed.
Print Assumptions irsem_deterministic.

(* Phis of a block are parallel copies: along an edge each phi receives the value its operand for that
   edge has in the environment BEFORE the transfer (also when that operand is another phi of the same
   block), the rest of the block is entered after the phis, and no other register changes. *)
Theorem phi_parallel :
  forall fn fr succ fr',
  goto_succ fn fr succ = inl fr' ->
  exists tb k ps rest,
    get_block fn (f_blk fr') = Some tb /\ split_phis (b_code tb) = (ps, rest) /\ f_code fr' = rest /\
    index_of (f_blk fr) (b_preds tb) 0 = Some k /\
    (NoDup (map fst ps) ->
       (forall d es, In (d, es) ps ->
          exists o v, nthN es k = Some o /\ eval_operand (f_env fr) o = inl v /\ PM.find d (f_env fr') = Some v) /\
       (forall r, ~ In r (map fst ps) -> PM.find r (f_env fr') = PM.find r (f_env fr))).
Proof. exact phi_parallel_thm. Qed.
Print Assumptions phi_parallel.

(* SSA environment safety.  If every function of the program passes the definitions-before-uses
   validator (Model/C01_SSA.v: a certificate of registers assigned on all paths, checked locally per
   instruction and per edge), then NO execution -- any entry function, any arguments, any heap, any fuel,
   through calls, closures, deferred calls, panics and recovery -- ever reads an unassigned register. *)
Theorem wf_no_undef :
  forall n p f args h, ssa_ok_prog p = true -> forall r, exec n p f args h <> Stuck (EUndef r).
Proof. exact exec_no_undef. Qed.
Print Assumptions wf_no_undef.

(* The invariant behind it is preserved by every single step of the machine. *)
Theorem wf_step_invariant :
  forall p st, ssa_ok_prog p = true -> stack_inv p st ->
  match step p st with
  | Next st' => stack_inv p st'
  | Final (Stuck (EUndef _)) => False
  | Final _ => True
  end.
Proof. exact step_inv. Qed.
Print Assumptions wf_step_invariant.

(* The step counter used by the correspondence check does not change outcomes. *)
Theorem exec_steps_faithful :
  forall n p f args h, fst (exec_steps n p f args h) = exec n p f args h.
Proof. exact exec_steps_fst. Qed.
Print Assumptions exec_steps_faithful.

(* ---- the full statement of C01 (NOT proved; differential) ----
   [source]: Go programs; [go_behaviour s f ins o]: the program compiled by the Go toolchain, run on
   function f with inputs ins, shows observation o (results / panic, extern-call trace, final globals and
   pointer arguments); [build s m]: the serialised IR go/ir builds for s in mode m (naive / lifted,
   debug on / off).  The property: whenever the model execution of the built IR terminates, the
   observation it yields is the one the compiled program shows. *)
Section FullStatement.
  Variable source : Type.
  Variable mode : Type.
  Variable go_behaviour : source -> N -> list input -> expect -> Prop.
  Variable build : source -> mode -> program * N * list value.   (* program, index of init, zero values of the globals *)

  Definition ir_refines_source_full_statement : Prop :=
    forall (s : source) (m : mode) (f : N) (ins : list input) (o : expect) (fuel : nat) (h0 : heap),
      go_behaviour s f ins o ->
      let '(p, initf, zeros) := build s m in
      init_heap fuel p initf zeros = inl h0 ->
      match fst (run_case fuel p h0 (length zeros) (mkCase f ins o)) with
      | VOk | VFuel => True            (* agrees, or not enough fuel to tell *)
      | _ => False
      end.
End FullStatement.
