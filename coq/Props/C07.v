(* C07 — U1000 is deletion-safe and catches every zero-reference object.
   ONLY statements closed by [exact]; each followed by Print Assumptions.
   Graph model shared with C17 (Model/C17_Graph.v); deleted set, references and checks in Model/C07.v. *)
From Coq Require Import List NArith Bool Permutation.
Import ListNotations.
Require Import Verif.Model.C17_Graph Verif.Model.C17_Check Verif.Model.C07
               Verif.Proofs.C17_Graph Verif.Proofs.C17 Verif.Proofs.C07.
Open Scope N_scope.

(* The used nodes are closed under use edges: deleting all nodes that are not used leaves no kept node with a use
   edge to a deleted one. *)
Theorem used_closed : forall g a b, seen g a -> In b (guses g a) -> b < gn g -> seen g b.
Proof. exact Verif.Proofs.C07.used_closed. Qed.
Print Assumptions used_closed.

(* What is removed together with the reported objects is exactly the reported objects and their owns+ ... *)
Theorem owned_deleted_with_owner : forall g x,
  deleted g x <-> (x < gn g /\ verdict g x = Unused) \/ (exists u, u < gn g /\ verdict g u = Unused /\ owns_plus g u x).
Proof. exact Verif.Proofs.C07.owned_deleted_with_owner. Qed.
Print Assumptions owned_deleted_with_owner.

(* ... and nothing declared inside a reported object is reported again (it is quiet, or used). *)
Theorem nested_not_reported : forall g u x,
  u < gn g -> verdict g u = Unused -> owns_plus g u x -> verdict g x <> Unused.
Proof. exact Verif.Proofs.C07.nested_not_reported. Qed.
Print Assumptions nested_not_reported.

(* A node with no incoming use edge from any node (root included) and no owner is reported. *)
Theorem zero_in_unused : forall g v,
  v <> 0 -> (forall u, u < gn g -> ~ In v (guses g u)) -> (forall u, u < gn g -> ~ In v (gowns g u)) ->
  verdict g v = Unused.
Proof. exact Verif.Proofs.C07.zero_in_unused. Qed.
Print Assumptions zero_in_unused.

Theorem unreferenced_from_used_is_unused : forall g v,
  v <> 0 -> (forall u, seen g u -> ~ In v (guses g u)) -> (forall u, u < gn g -> ~ In v (gowns g u)) ->
  verdict g v = Unused.
Proof. exact Verif.Proofs.C07.unreferenced_from_used_is_unused. Qed.
Print Assumptions unreferenced_from_used_is_unused.

(* Results() puts every node except the root into exactly one of Used / Unused / Quiet. *)
Theorem reported_partition : forall l u un q, results l = (u, un, q) -> Permutation (u ++ un ++ q) (map fst (tl l)).
Proof. exact Verif.Proofs.C07.reported_partition. Qed.
Print Assumptions reported_partition.

(* With acyclic ownership every quiet object lies inside a reported one. *)
Theorem quiet_only_under_unused_owner : forall g (rank : node -> nat),
  (forall u v, u < gn g -> v < gn g -> In v (gowns g u) -> (rank u < rank v)%nat) ->
  forall v, v < gn g -> verdict g v = Quiet -> deleted g v.
Proof. exact Verif.Proofs.C07.quiet_has_unused_root. Qed.
Print Assumptions quiet_only_under_unused_owner.

(* Deletion safety, relative to the explicit hypothesis edges_cover_refs (every identifier of the package that
   resolves to an in-package object has a use edge from the declaration it lies in or from an owner of that
   declaration): after deleting the reported objects and what they own, every identifier that is left still refers
   to an object that is left. *)
Theorem deletion_safe_model : forall g refs,
  edges_cover_refs g refs -> rooted g -> inner_refs_local g refs ->
  forall a w b, In (a, w, b) refs -> ~ deleted g a -> ~ deleted g b.
Proof. exact Verif.Proofs.C07.deletion_safe_model. Qed.
Print Assumptions deletion_safe_model.

(* The boolean checks evaluated on every exported graph are sound for these hypotheses. *)
Theorem checked_graph_is_deletion_safe : forall c refs,
  edges_cover_refsb (of_cgraph c) refs = true -> rootedb (of_cgraph c) = true -> inner_okb (of_cgraph c) refs = true ->
  deletion_safe (of_cgraph c) refs /\ deletion_safe_b (of_cgraph c) refs = true.
Proof. exact Verif.Proofs.C07.checked_graph_is_deletion_safe. Qed.
Print Assumptions checked_graph_is_deletion_safe.

Theorem deletedb_is_deleted : forall g x, deletedb g x = true <-> deleted g x.
Proof. exact deletedb_iff. Qed.
Print Assumptions deletedb_is_deleted.
