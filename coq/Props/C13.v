(* C13 — dataflow solvers reach the least fixpoint; lattices obey their laws.
   ONLY statements closed by [exact]; each followed by Print Assumptions. *)
From Coq Require Import List Arith Bool NArith.
Import ListNotations.
Require Import Verif.Model.C13 Verif.Gen.C13_NilnessTable Verif.Model.C13_Nilness.
Require Import Verif.Proofs.C13 Verif.Proofs.C13_Lattices Verif.Proofs.C13_MapLattice Verif.Proofs.C13_Sparse Verif.Proofs.C13_Nilness.

(* ---- dense solver: for every lawful semilattice, every finite multigraph, every transfer function and
   entry map and EVERY pick order (run with an arbitrary pick function; the priority heap is one) *)
Theorem dense_fixpoint :
  forall (F : Type) (L : Semilattice F) (LL : SemilatticeLaws F)
         (succs : list (list nat)) (transfer : nat -> nat -> F -> F) (entry : nat -> option F)
         (pick : list nat -> nat) (fuel : nat) (s : state),
    wf_graph succs ->
    run succs transfer pick fuel (init succs entry) = Some s ->
    (forall b, b < nn succs -> is_dirty s b = false) /\
    is_fixpoint_b succs transfer entry (get_in s) (get_out s) = true.
Proof.
  exact (fun F L LL succs transfer entry pick fuel s wf H =>
    match run_steps succs transfer pick fuel _ _ H with
    | ex_intro _ picks (conj H1 H2) => dense_fixpoint_steps succs transfer entry wf picks s H1 H2
    end).
Qed.
Print Assumptions dense_fixpoint.

Theorem dense_least :
  forall (F : Type) (L : Semilattice F) (LL : SemilatticeLaws F)
         (succs : list (list nat)) (transfer : nat -> nat -> F -> F) (entry : nat -> option F)
         (pick : list nat -> nat) (fuel : nat) (s : state) (inf : nat -> F) (outf : nat -> nat -> F),
    wf_graph succs -> mono_transfer transfer ->
    post_fixpoint succs transfer entry inf outf ->
    run succs transfer pick fuel (init succs entry) = Some s ->
    forall b, b < nn succs ->
      leq (get_in s b) (inf b) /\ forall i, i < outdeg succs b -> leq (get_out s b i) (outf b i).
Proof.
  exact (fun F L LL succs transfer entry pick fuel s inf outf wf M PF H =>
    match run_steps succs transfer pick fuel _ _ H with
    | ex_intro _ picks (conj H1 H2) => dense_least_steps succs transfer entry wf picks s inf outf M PF H1 H2
    end).
Qed.
Print Assumptions dense_least.

Theorem dense_pick_independent :
  forall (F : Type) (L : Semilattice F) (LL : SemilatticeLaws F)
         (succs : list (list nat)) (transfer : nat -> nat -> F -> F) (entry : nat -> option F)
         (pick1 pick2 : list nat -> nat) (fuel1 fuel2 : nat) (s1 s2 : state),
    wf_graph succs -> mono_transfer transfer ->
    run succs transfer pick1 fuel1 (init succs entry) = Some s1 ->
    run succs transfer pick2 fuel2 (init succs entry) = Some s2 ->
    forall b, b < nn succs ->
      eqv (get_in s1 b) (get_in s2 b) = true /\
      forall i, i < outdeg succs b -> eqv (get_out s1 b i) (get_out s2 b i) = true.
Proof.
  exact (fun F L LL succs transfer entry pick1 pick2 fuel1 fuel2 s1 s2 wf M H1 H2 =>
    match run_steps succs transfer pick1 fuel1 _ _ H1, run_steps succs transfer pick2 fuel2 _ _ H2 with
    | ex_intro _ p1 (conj A1 B1), ex_intro _ p2 (conj A2 B2) =>
        dense_pick_independent_steps succs transfer entry wf p1 p2 s1 s2 M A1 B1 A2 B2
    end).
Qed.
Print Assumptions dense_pick_independent.

Theorem dense_terminates :
  forall (F : Type) (L : Semilattice F) (LL : SemilatticeLaws F)
         (succs : list (list nat)) (transfer : nat -> nat -> F -> F) (entry : nat -> option F)
         (rank : F -> nat) (H : nat) (pick : list nat -> nat) (fuel : nat),
    wf_graph succs -> mono_transfer transfer ->
    (forall x, rank x <= H) ->
    (forall a b, leq a b -> eqv b a = false -> rank a < rank b) ->
    dense_fuel succs H <= fuel ->
    exists s, run succs transfer pick fuel (init succs entry) = Some s.
Proof.
  exact (fun F L LL succs transfer entry rank H pick fuel wf M RB RS HF =>
    dense_terminates_run succs transfer entry wf rank H RB RS M pick fuel HF).
Qed.
Print Assumptions dense_terminates.

(* ---- sparse solver (Instance.Forward), any pick order (Go's map iteration order), under the stated premise:
   transfer functions write only the instruction's own value and read only its operands *)
Theorem sparse_fixpoint_least :
  forall (F : Type) (L : Semilattice F) (LL : SemilatticeLaws F)
         (instrs : list (list nat * bool)) (tself : nat -> (nat -> F) -> option F)
         (m0 : list (nat * F)) (pick : list nat -> nat) (fuel : nat) (s : sstate),
    (forall i m m', (forall v, In v (ops_of instrs i) -> m v = m' v) -> tself i m = tself i m') ->
    srun instrs (transfer_of tself) pick fuel (sinit instrs m0) = Some s ->
    (* a solution: every phi is the merge of its edges, every other value the transfer of its operands' states *)
    (forall i, i < ni instrs -> fix_at instrs tself (value s) i) /\
    (* below every post-solution above the initial mapping *)
    (mono_tself tself ->
     forall m' : nat -> F,
       (forall v, leq (lookup m0 v) (m' v)) ->
       (forall i x, i < ni instrs -> target instrs tself i m' = Some x -> leq x (m' i)) ->
       forall v, leq (value s v) (m' v)).
Proof.
  exact sparse_fixpoint_least_run.
Qed.
Print Assumptions sparse_fixpoint_least.

(* without the premise the statement is false of the faithful model (DESIGN F14): the solver re-enqueues the
   referrers of the instruction it ran, not of the value a mapping is about *)
Theorem sparse_wrong_referrers_refuted :
  exists picks s,
    @ssteps N BitsSemilattice f14_instrs f14_transfer picks (@sinit N f14_instrs []) = Some s /\
    swork s = [] /\
    @value N BitsSemilattice s 2 <> @value N BitsSemilattice s 1.
Proof. exact Verif.Proofs.C13_Sparse.sparse_wrong_referrers_refuted. Qed.
Print Assumptions sparse_wrong_referrers_refuted.

(* ---- lattices *)
(* dfa.MapLattice over any lawful element lattice, on maps satisfying the representation invariant stated in
   lattice.go (distinct keys, identity never stored): Merge does not panic and preserves the invariant; Equals is an
   equivalence respected by Merge; associativity, commutativity, idempotence, identity *)
Theorem map_lattice_laws :
  forall (E : Type) (LE : Semilattice E), SemilatticeLaws E ->
    wf [] /\
    (forall a b, wf a -> wf b -> map_merge_opt a b <> None /\ wf (map_merge a b)) /\
    (forall a, wf a -> map_equals a a = true) /\
    (forall a b, wf a -> wf b -> map_equals a b = true -> map_equals b a = true) /\
    (forall a b c, wf a -> wf b -> wf c -> map_equals a b = true -> map_equals b c = true -> map_equals a c = true) /\
    (forall a a' b b', wf a -> wf a' -> wf b -> wf b' -> map_equals a a' = true -> map_equals b b' = true ->
                       map_equals (map_merge a b) (map_merge a' b') = true) /\
    (forall a b c, wf a -> wf b -> wf c ->
                   map_equals (map_merge a (map_merge b c)) (map_merge (map_merge a b) c) = true) /\
    (forall a b, wf a -> wf b -> map_equals (map_merge a b) (map_merge b a) = true) /\
    (forall a, wf a -> map_equals (map_merge a a) a = true) /\
    (forall a, wf a -> map_equals (map_merge a []) a = true).
Proof. exact (fun E LE LLE => @map_lattice_laws_wf E LE LLE). Qed.
Print Assumptions map_lattice_laws.

Theorem dense_map_lattice_laws :
  forall (E : Type) (LE : Semilattice E), SemilatticeLaws E -> @SemilatticeLaws (list E) DenseMapSemilattice.
Proof. exact (fun E LE LLE => @DenseMapLaws E LE LLE). Qed.
Print Assumptions dense_map_lattice_laws.

(* finite, on the regenerated table *)
Theorem nilness_table_ok : table_shape_ok = true.
Proof. exact nilness_table_shape. Qed.
Print Assumptions nilness_table_ok.

Theorem nilness_laws : laws_b NilSemilattice all_nilness = true.
Proof. exact nilness_laws_finite. Qed.
Print Assumptions nilness_laws.

Theorem nilness_lattice_laws : @SemilatticeLaws nilness NilSemilattice.
Proof. exact NilLaws. Qed.
Print Assumptions nilness_lattice_laws.

Theorem nilness_state_lattice_laws : @SemilatticeLaws (list vn) NilStateSemilattice.
Proof. exact NilStateLaws. Qed.
Print Assumptions nilness_state_lattice_laws.

Theorem nilness_rank :
  (forall a, nil_rank a <= nil_height) /\
  (forall a b : nilness, leq a b -> eqv b a = false -> nil_rank a < nil_rank b).
Proof. exact (conj nil_rank_bound nil_rank_strict). Qed.
Print Assumptions nilness_rank.
