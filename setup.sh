#!/bin/bash
# MANIFEST.setup_cmd: build the framework from files on disk only (offline).
# A failure in one property's files must not take the others down: every check re-makes its own
# targets and reports a broken build as its own failure, so this script only warns.
cd "$(dirname "$0")"
export GOFLAGS=-mod=mod GOPROXY=off
unset GOTOOLCHAIN GOSUMDB
mkdir -p bin coq/Gen coq/cases evidence replay
# 1. translator
(cd genmodel && go build -o ../bin/genmodel .) || { echo "setup: genmodel build FAILED"; exit 1; }
./bin/genmodel -repo /repo -out coq/Gen -only all || echo "setup: WARNING genmodel reported errors"
# 2. Coq development: full .vo build (never -vos)
python3 tools/forbidden.py || echo "setup: WARNING forbidden vernacular present"
bash tools/mkcoqproject.sh
(cd coq && timeout 5400 make -k -j16 2>&1 | grep -v '^Closed under\|^COQC\|^COQDEP' | tail -n 60)
# 3. harness: pre-build every command against /repo (-tags verif) to warm the build cache
cp /repo/go.sum harness/go.sum
(cd harness && for d in cmd/*/; do go build -tags verif -o ../bin/$(basename $d) ./$d || echo "setup: WARNING harness $d did not build"; done)
# 4. the repository's own commands used black-box by checks
(cd /repo && go build -tags verif -o /verif/bin/staticcheck ./cmd/staticcheck) || echo "setup: WARNING staticcheck did not build"
echo setup-ok
