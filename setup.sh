#!/bin/bash
# MANIFEST.setup_cmd: build the framework from files on disk only (offline).
set -e
cd "$(dirname "$0")"
export GOFLAGS=-mod=mod GOPROXY=off
unset GOTOOLCHAIN GOSUMDB
mkdir -p bin coq/Gen coq/cases evidence replay
# 1. translator
(cd genmodel && go build -o ../bin/genmodel .)
./bin/genmodel -repo /repo -out coq/Gen -only all
# 2. Coq development: full .vo build
bash tools/forbidden.sh
bash tools/mkcoqproject.sh
(cd coq && timeout 3000 make -j16 2>&1 | tail -n 40)
# 3. harness: pre-build every command against /repo (-tags verif) to warm the build cache
cp /repo/go.sum harness/go.sum
(cd harness && for d in cmd/*/; do go build -tags verif -o ../bin/$(basename $d) ./$d; done)
echo setup-ok
