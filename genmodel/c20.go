package main

import (
	"fmt"
	"go/ast"
	"go/token"
	"strings"
)

// C20: analysis/report/report.go
//   - for each Minimum*/Maximum* option setter, the Options field its closure assigns
//   - for each version gate in Report: the Options field read, the version variable compared against
//     (langVersion := code.LanguageVersion / stdlibVersion := code.StdlibVersion) and the sign tested.
// analysis/code/code.go:StdlibVersion: the threshold literal ("go1.21") and the shape of the two branches.
// go/loader/loader.go: the choice of types.Config.GoVersion.
func init() { register("C20", genC20) }

var c20Fields = map[string]string{
	"MinimumLanguageVersion": "FMinLang",
	"MaximumLanguageVersion": "FMaxLang",
	"MinimumStdlibVersion":   "FMinStd",
	"MaximumStdlibVersion":   "FMaxStd",
}
var c20Bounds = map[string]string{
	"MinimumLanguageVersion": "BMinLang",
	"MaximumLanguageVersion": "BMaxLang",
	"MinimumStdlibVersion":   "BMinStd",
	"MaximumStdlibVersion":   "BMaxStd",
}

func genC20(repo string) (map[string]string, error) {
	_, f, err := parseFile(repo, "analysis/report/report.go")
	if err != nil {
		return nil, err
	}
	var setters []string
	for _, name := range []string{"MinimumLanguageVersion", "MaximumLanguageVersion", "MinimumStdlibVersion", "MaximumStdlibVersion"} {
		fd := findFunc(f, name)
		if fd == nil {
			return nil, fmt.Errorf("setter %s not found", name)
		}
		// the closure must consist of assignments `opts.<Field> = vers`; collect all of them
		var assigned []string
		bad := false
		ast.Inspect(fd.Body, func(n ast.Node) bool {
			as, ok := n.(*ast.AssignStmt)
			if !ok {
				return true
			}
			for i, lhs := range as.Lhs {
				sel, ok := lhs.(*ast.SelectorExpr)
				if !ok {
					bad = true
					continue
				}
				id, ok := as.Rhs[i].(*ast.Ident)
				if !ok || id.Name != fd.Type.Params.List[0].Names[0].Name || as.Tok != token.ASSIGN {
					bad = true
				}
				fld, ok := c20Fields[sel.Sel.Name]
				if !ok {
					bad = true
					continue
				}
				assigned = append(assigned, fld)
			}
			return true
		})
		if bad || len(assigned) == 0 {
			return nil, fmt.Errorf("setter %s: unrecognised shape", name)
		}
		for _, a := range assigned {
			setters = append(setters, fmt.Sprintf("(%s, %s)", c20Bounds[name], a))
		}
	}

	rep := findFunc(f, "Report")
	if rep == nil {
		return nil, fmt.Errorf("Report not found")
	}
	vars := map[string]string{} // local variable -> VLang/VStd
	var gates []string
	for _, st := range rep.Body.List {
		switch st := st.(type) {
		case *ast.AssignStmt:
			if len(st.Lhs) == 1 && len(st.Rhs) == 1 {
				if call, ok := st.Rhs[0].(*ast.CallExpr); ok {
					if sel, ok := call.Fun.(*ast.SelectorExpr); ok {
						if id, ok := st.Lhs[0].(*ast.Ident); ok {
							switch sel.Sel.Name {
							case "LanguageVersion":
								vars[id.Name] = "VLang"
							case "StdlibVersion":
								vars[id.Name] = "VStd"
							}
						}
					}
				}
			}
		case *ast.IfStmt:
			// if n := cfg.X; n != "" && version.Compare(n, V) == K { return }
			init, ok := st.Init.(*ast.AssignStmt)
			if !ok || len(init.Rhs) != 1 {
				continue
			}
			sel, ok := init.Rhs[0].(*ast.SelectorExpr)
			if !ok {
				continue
			}
			fld, ok := c20Fields[sel.Sel.Name]
			if !ok {
				continue
			}
			nname := init.Lhs[0].(*ast.Ident).Name
			and, ok := st.Cond.(*ast.BinaryExpr)
			if !ok || and.Op != token.LAND {
				return nil, fmt.Errorf("Report: gate on %s has unrecognised condition", sel.Sel.Name)
			}
			ne, ok := and.X.(*ast.BinaryExpr)
			if !ok || ne.Op != token.NEQ {
				return nil, fmt.Errorf("Report: gate on %s: first conjunct is not `n != \"\"`", sel.Sel.Name)
			}
			cmp, ok := and.Y.(*ast.BinaryExpr)
			if !ok || cmp.Op != token.EQL {
				return nil, fmt.Errorf("Report: gate on %s: second conjunct is not a == comparison", sel.Sel.Name)
			}
			call, ok := cmp.X.(*ast.CallExpr)
			if !ok || len(call.Args) != 2 {
				return nil, fmt.Errorf("Report: gate on %s: no Compare call", sel.Sel.Name)
			}
			a0, ok0 := call.Args[0].(*ast.Ident)
			a1, ok1 := call.Args[1].(*ast.Ident)
			if !ok0 || !ok1 || a0.Name != nname {
				return nil, fmt.Errorf("Report: gate on %s: Compare arguments unrecognised", sel.Sel.Name)
			}
			vk, ok := vars[a1.Name]
			if !ok {
				return nil, fmt.Errorf("Report: gate on %s compares against unknown variable %s", sel.Sel.Name, a1.Name)
			}
			sign := ""
			switch k := cmp.Y.(type) {
			case *ast.BasicLit:
				sign = k.Value
			case *ast.UnaryExpr:
				if lit, ok := k.X.(*ast.BasicLit); ok && k.Op == token.SUB {
					sign = "-" + lit.Value
				}
			}
			if sign != "1" && sign != "-1" && sign != "0" {
				return nil, fmt.Errorf("Report: gate on %s: sign unrecognised", sel.Sel.Name)
			}
			if len(st.Body.List) != 1 {
				return nil, fmt.Errorf("Report: gate on %s: body is not a single return", sel.Sel.Name)
			}
			if _, ok := st.Body.List[0].(*ast.ReturnStmt); !ok {
				return nil, fmt.Errorf("Report: gate on %s: body is not a return", sel.Sel.Name)
			}
			gates = append(gates, fmt.Sprintf("(%s, %s, (%s)%%Z)", fld, vk, sign))
		}
	}

	// StdlibVersion: threshold literal of the first Compare against a string literal
	_, cf, err := parseFile(repo, "analysis/code/code.go")
	if err != nil {
		return nil, err
	}
	sv := findFunc(cf, "StdlibVersion")
	if sv == nil {
		return nil, fmt.Errorf("StdlibVersion not found")
	}
	thr := ""
	thrSign := ""
	ast.Inspect(sv.Body, func(n ast.Node) bool {
		be, ok := n.(*ast.BinaryExpr)
		if !ok || be.Op != token.EQL || thr != "" {
			return true
		}
		call, ok := be.X.(*ast.CallExpr)
		if !ok || len(call.Args) != 2 {
			return true
		}
		if lit, ok := call.Args[1].(*ast.BasicLit); ok && lit.Kind == token.STRING {
			thr = strings.Trim(lit.Value, `"`)
			if u, ok := be.Y.(*ast.UnaryExpr); ok {
				thrSign = "-" + u.X.(*ast.BasicLit).Value
			} else if l, ok := be.Y.(*ast.BasicLit); ok {
				thrSign = l.Value
			}
		}
		return true
	})
	var maj, min int
	if _, err := fmt.Sscanf(thr, "go%d.%d", &maj, &min); err != nil {
		return nil, fmt.Errorf("StdlibVersion: threshold literal %q unrecognised", thr)
	}

	var b strings.Builder
	b.WriteString("From Coq Require Import List ZArith.\nImport ListNotations.\nRequire Import Verif.Model.C20_Types.\n\n")
	b.WriteString("(* analysis/report/report.go: option setter -> Options field it assigns *)\n")
	fmt.Fprintf(&b, "Definition gen_setters : list (bound * field) :=\n  %s.\n\n", coqList(setters))
	b.WriteString("(* analysis/report/report.go:Report: (field read, version compared against, sign of version.Compare(bound, version) that suppresses) *)\n")
	fmt.Fprintf(&b, "Definition gen_gates : list (field * vkind * Z) :=\n  %s.\n\n", coqList(gates))
	b.WriteString("(* analysis/code/code.go:StdlibVersion: module-version threshold and the Compare sign selecting the pre-threshold branch *)\n")
	fmt.Fprintf(&b, "Definition gen_std_threshold : Z * Z := (%d, %d)%%Z.\nDefinition gen_std_threshold_sign : Z := (%s)%%Z.\n", maj, min, thrSign)
	return map[string]string{"C20_ReportOpts.v": b.String()}, nil
}
