package main

import (
	"fmt"
	"go/ast"
	"go/parser"
	"go/token"
	"os"
	"path/filepath"
	"sort"
	"strconv"
	"strings"
)

// C11: the names of all registered checks (the `Name:` of the analysis.Analyzer literal of every check
// package below staticcheck/, simple/, stylecheck/, quickfix/ and unused/), for the finite obligation
// ascii_names (names are ASCII, contain a digit and are distinct after case folding), and the values the
// code compares selection elements and categories with: the literals "*", "all" and the '-' prefix of
// filterAnalyzerNames, "inherit" of mergeLists, the categories forced into shouldExit by printDiagnostics.
func init() { register("C11", genC11) }

func genC11(repo string) (map[string]string, error) {
	var names []string
	namesByDir := map[string][]string{}
	nonDefaultDir := map[string]bool{}
	for _, top := range []string{"staticcheck", "simple", "stylecheck", "quickfix", "unused"} {
		root := filepath.Join(repo, top)
		err := filepath.WalkDir(root, func(path string, d os.DirEntry, err error) error {
			if err != nil {
				return err
			}
			if d.IsDir() {
				if d.Name() == "testdata" {
					return filepath.SkipDir
				}
				return nil
			}
			if !strings.HasSuffix(path, ".go") || strings.HasSuffix(path, "_test.go") {
				return nil
			}
			fset := token.NewFileSet()
			f, err := parser.ParseFile(fset, path, nil, 0)
			if err != nil {
				return err
			}
			ast.Inspect(f, func(n ast.Node) bool {
				// `X.Analyzer.Name = "ST1023"` (a check defined as a renamed copy of another one)
				if as, ok := n.(*ast.AssignStmt); ok && len(as.Lhs) == 1 && len(as.Rhs) == 1 {
					if sel, ok := as.Lhs[0].(*ast.SelectorExpr); ok && sel.Sel.Name == "Name" {
						if in, ok := sel.X.(*ast.SelectorExpr); ok && in.Sel.Name == "Analyzer" {
							if lit, ok := as.Rhs[0].(*ast.BasicLit); ok && lit.Kind == token.STRING {
								if s, err := strconv.Unquote(lit.Value); err == nil {
									names = append(names, s)
									namesByDir[filepath.Dir(path)] = append(namesByDir[filepath.Dir(path)], s)
								}
							}
						}
					}
				}
				cl, ok := n.(*ast.CompositeLit)
				if !ok {
					return true
				}
				sel, ok := cl.Type.(*ast.SelectorExpr)
				if ok && sel.Sel.Name == "RawDocumentation" {
					for _, el := range cl.Elts {
						if kv, ok := el.(*ast.KeyValueExpr); ok {
							if k, ok := kv.Key.(*ast.Ident); ok && k.Name == "NonDefault" {
								if v, ok := kv.Value.(*ast.Ident); ok && v.Name == "true" {
									nonDefaultDir[filepath.Dir(path)] = true
								}
							}
						}
					}
				}
				if !ok || sel.Sel.Name != "Analyzer" {
					return true
				}
				if x, ok := sel.X.(*ast.Ident); !ok || x.Name != "analysis" {
					return true
				}
				for _, el := range cl.Elts {
					kv, ok := el.(*ast.KeyValueExpr)
					if !ok {
						continue
					}
					if k, ok := kv.Key.(*ast.Ident); ok && k.Name == "Name" {
						if lit, ok := kv.Value.(*ast.BasicLit); ok && lit.Kind == token.STRING {
							s, err := strconv.Unquote(lit.Value)
							if err == nil {
								names = append(names, s)
								namesByDir[filepath.Dir(path)] = append(namesByDir[filepath.Dir(path)], s)
							}
						}
					}
				}
				return true
			})
			return nil
		})
		if err != nil {
			return nil, err
		}
	}
	// checks whose documentation says NonDefault: true (one check per package directory)
	var nonDefault []string
	for dir, ns := range namesByDir {
		if nonDefaultDir[dir] {
			nonDefault = append(nonDefault, ns...)
		}
	}
	sort.Strings(nonDefault)
	sort.Strings(names)
	if len(names) < 50 {
		return nil, fmt.Errorf("only %d analyzer names found", len(names))
	}

	// filterAnalyzerNames: string literals compared with check.String(), and the byte compared with check.Index(0)
	_, lf, err := parseFile(repo, "lintcmd/lint.go")
	if err != nil {
		return nil, err
	}
	fan := findFunc(lf, "filterAnalyzerNames")
	if fan == nil {
		return nil, fmt.Errorf("filterAnalyzerNames not found")
	}
	var lits []string
	ast.Inspect(fan.Body, func(n ast.Node) bool {
		if bl, ok := n.(*ast.BasicLit); ok && (bl.Kind == token.STRING || bl.Kind == token.CHAR) {
			s, err := strconv.Unquote(bl.Value)
			if err == nil {
				lits = append(lits, s)
			}
		}
		return true
	})
	// mergeLists: the literal compared with an element
	_, cf, err := parseFile(repo, "config/config.go")
	if err != nil {
		return nil, err
	}
	ml := findFunc(cf, "mergeLists")
	if ml == nil {
		return nil, fmt.Errorf("mergeLists not found")
	}
	var mlits []string
	ast.Inspect(ml.Body, func(n ast.Node) bool {
		if bl, ok := n.(*ast.BasicLit); ok && bl.Kind == token.STRING {
			s, _ := strconv.Unquote(bl.Value)
			mlits = append(mlits, s)
		}
		return true
	})
	// printDiagnostics: shouldExit[makeCaseFoldedString("...")] = true
	_, mf, err := parseFile(repo, "lintcmd/cmd.go")
	if err != nil {
		return nil, err
	}
	pd := findMethod(mf, "Command", "printDiagnostics")
	if pd == nil {
		return nil, fmt.Errorf("printDiagnostics not found")
	}
	var forced []string
	ast.Inspect(pd.Body, func(n ast.Node) bool {
		as, ok := n.(*ast.AssignStmt)
		if !ok || len(as.Lhs) != 1 || len(as.Rhs) != 1 {
			return true
		}
		ix, ok := as.Lhs[0].(*ast.IndexExpr)
		if !ok {
			return true
		}
		if x, ok := ix.X.(*ast.Ident); !ok || x.Name != "shouldExit" {
			return true
		}
		v, ok := as.Rhs[0].(*ast.Ident)
		if !ok || v.Name != "true" {
			return true
		}
		call, ok := ix.Index.(*ast.CallExpr)
		if !ok || len(call.Args) != 1 {
			return true
		}
		if bl, ok := call.Args[0].(*ast.BasicLit); ok && bl.Kind == token.STRING {
			s, _ := strconv.Unquote(bl.Value)
			forced = append(forced, s)
		}
		return true
	})
	sort.Strings(forced)

	q := func(l []string) string {
		var items []string
		for _, s := range l {
			for _, r := range s {
				if r < 32 || r > 126 {
					// keep the file loadable; the obligation on the byte values fails instead
					s = strings.ReplaceAll(s, string(r), "\u007f")
				}
			}
			items = append(items, coqString(s))
		}
		return coqList(items)
	}
	nonASCII := 0
	for _, s := range names {
		for _, r := range s {
			if r > 126 || r < 32 {
				nonASCII++
			}
		}
	}
	var b strings.Builder
	b.WriteString("From Coq Require Import List String.\nImport ListNotations.\nOpen Scope string_scope.\n\n")
	b.WriteString("(* Name of every analysis.Analyzer literal below staticcheck/ simple/ stylecheck/ quickfix/ unused/ *)\n")
	fmt.Fprintf(&b, "Definition gen_analyzer_names : list string :=\n  %s.\n", q(names))
	fmt.Fprintf(&b, "Definition gen_non_ascii_name_chars : nat := %d.\n\n", nonASCII)
	b.WriteString("(* checks documented with NonDefault: true (Execute turns them into \"-NAME\" entries of the default list) *)\n")
	fmt.Fprintf(&b, "Definition gen_non_default : list string :=\n  %s.\n\n", q(nonDefault))
	b.WriteString("(* string and character literals of lintcmd/lint.go:filterAnalyzerNames, in source order *)\n")
	fmt.Fprintf(&b, "Definition gen_filter_literals : list string :=\n  %s.\n\n", q(lits))
	b.WriteString("(* string literals of config/config.go:mergeLists *)\n")
	fmt.Fprintf(&b, "Definition gen_merge_literals : list string :=\n  %s.\n\n", q(mlits))
	b.WriteString("(* categories printDiagnostics forces into shouldExit *)\n")
	fmt.Fprintf(&b, "Definition gen_forced_exit : list string :=\n  %s.\n", q(forced))
	return map[string]string{"C11_Names.v": b.String()}, nil
}
