package main

import (
	"bytes"
	"fmt"
	"go/ast"
	"go/parser"
	"go/printer"
	"go/token"
	"os"
	"path/filepath"
	"sort"
	"strings"
)

// C18: go/ir — lock/table op traces, once-guard and iterate shape.
//
//   - guards: every struct of package ir with a sync.Mutex field; the fields following the mutex in
//     the same paragraph (no blank line) are the tables it guards (the convention the package uses:
//     methodsMu/methodSets, hasParamsMu/hasParams, makeInterfaceTypesMu/makeInterfaceTypes,
//     objectMethodsMu/objectMethods, generic.instancesMu/instances, canonizer.mu/types,lists);
//     plus methodSet.mapping, reachable only through Program.methodSets, guarded by methodsMu.
//   - traces: for every function (and every function literal doing its own locking) that locks one of
//     those mutexes or touches one of those tables, the sequence of Lock/Unlock/defer Unlock/Read/Write
//     in source order.
//
// The extraction is deliberately narrow. Anything it cannot classify is an error (the check then
// treats the tie as broken): Lock/Unlock nested in control flow, RWMutex, embedded mutexes, a table
// passed to an unknown function, aliased, address taken, captured by a closure that is not invoked
// on the spot, touched inside go/defer, an unknown method called on a table.
func init() { register("C18", genC18) }

type c18Guard struct {
	field, mutex, owner string
	same                bool
}

type c18Unit struct {
	name string
	ops  []string
}

var c18WriteMethods = map[string]bool{"Set": true, "Delete": true, "SetHasher": true, "rep": true, "Has": true}
var c18ReadMethods = map[string]bool{"At": true, "Len": true, "Keys": true, "Iterate": true, "String": true, "KeysString": true}

func c18Expr(e ast.Expr) (string, bool) {
	switch e := e.(type) {
	case *ast.Ident:
		return e.Name, true
	case *ast.SelectorExpr:
		b, ok := c18Expr(e.X)
		if !ok {
			return "", false
		}
		return b + "." + e.Sel.Name, true
	case *ast.ParenExpr:
		return c18Expr(e.X)
	}
	return "", false
}

func c18Print(fset *token.FileSet, n ast.Node) string {
	var buf bytes.Buffer
	printer.Fprint(&buf, fset, n)
	return strings.Join(strings.Fields(buf.String()), " ")
}

func isSyncType(e ast.Expr, name string) bool {
	sel, ok := e.(*ast.SelectorExpr)
	if !ok {
		return false
	}
	id, ok := sel.X.(*ast.Ident)
	return ok && id.Name == "sync" && sel.Sel.Name == name
}

func genC18(repo string) (map[string]string, error) {
	dir := filepath.Join(repo, "go", "ir")
	ents, err := os.ReadDir(dir)
	if err != nil {
		return nil, err
	}
	fset := token.NewFileSet()
	type srcFile struct {
		name string
		f    *ast.File
	}
	var files []srcFile
	for _, e := range ents {
		n := e.Name()
		if e.IsDir() || !strings.HasSuffix(n, ".go") || strings.HasSuffix(n, "_test.go") || strings.HasPrefix(n, "verif_") {
			continue
		}
		f, err := parser.ParseFile(fset, filepath.Join(dir, n), nil, parser.ParseComments)
		if err != nil {
			return nil, err
		}
		files = append(files, srcFile{n, f})
	}
	sort.Slice(files, func(i, j int) bool { return files[i].name < files[j].name })

	// ---- 1. guards from struct declarations
	var guards []c18Guard
	mutexes := map[string]bool{}
	tables := map[string]*c18Guard{}
	var pkgMutexes []string
	methodSetsType := ""
	methodSetHasMutex, methodSetHasMapping := false, false
	onceFields := map[string]string{} // struct.field -> sync.Once
	for _, sf := range files {
		for _, d := range sf.f.Decls {
			gd, ok := d.(*ast.GenDecl)
			if !ok {
				continue
			}
			for _, sp := range gd.Specs {
				switch sp := sp.(type) {
				case *ast.ValueSpec:
					if sp.Type != nil && (isSyncType(sp.Type, "Mutex") || isSyncType(sp.Type, "RWMutex")) {
						for _, n := range sp.Names {
							pkgMutexes = append(pkgMutexes, n.Name)
						}
					}
				case *ast.TypeSpec:
					st, ok := sp.Type.(*ast.StructType)
					if !ok {
						continue
					}
					owner := sp.Name.Name
					cur := ""     // mutex currently opening a paragraph
					lastLine := 0 // last line of the previous field
					for _, fld := range st.Fields.List {
						start := fset.Position(fld.Pos()).Line
						if fld.Doc != nil {
							start = fset.Position(fld.Doc.Pos()).Line
						}
						end := fset.Position(fld.End()).Line
						if fld.Comment != nil {
							end = fset.Position(fld.Comment.End()).Line
						}
						if isSyncType(fld.Type, "RWMutex") {
							return nil, fmt.Errorf("%s: struct %s has a sync.RWMutex field: RLock/RUnlock are not modelled", sf.name, owner)
						}
						if isSyncType(fld.Type, "Once") {
							for _, n := range fld.Names {
								onceFields[owner+"."+n.Name] = "sync.Once"
							}
						}
						if isSyncType(fld.Type, "Mutex") {
							if len(fld.Names) != 1 {
								return nil, fmt.Errorf("%s: struct %s: embedded or multi-name sync.Mutex field", sf.name, owner)
							}
							cur = fld.Names[0].Name
							if mutexes[cur] {
								return nil, fmt.Errorf("%s: mutex field name %s used by two structs (field names identify mutexes in the traces)", sf.name, cur)
							}
							mutexes[cur] = true
							lastLine = end
							continue
						}
						if cur != "" && start == lastLine+1 {
							for _, n := range fld.Names {
								if tables[n.Name] != nil {
									return nil, fmt.Errorf("%s: guarded field name %s used by two structs", sf.name, n.Name)
								}
								g := c18Guard{field: n.Name, mutex: cur, owner: owner, same: true}
								guards = append(guards, g)
								tables[n.Name] = &guards[len(guards)-1]
								if owner == "Program" && n.Name == "methodSets" {
									methodSetsType = c18Print(fset, fld.Type)
								}
							}
							lastLine = end
						} else {
							cur = ""
							lastLine = end
						}
						if owner == "methodSet" {
							for _, n := range fld.Names {
								if n.Name == "mapping" {
									methodSetHasMapping = true
								}
							}
						}
					}
					if owner == "methodSet" {
						for _, fld := range st.Fields.List {
							if isSyncType(fld.Type, "Mutex") {
								methodSetHasMutex = true
							}
						}
					}
				}
			}
		}
	}
	// re-point (the slice may have been reallocated while appending)
	for i := range guards {
		tables[guards[i].field] = &guards[i]
	}
	// methodSet.mapping: lives only inside values of Program.methodSets
	if methodSetHasMapping && !methodSetHasMutex {
		if tables["methodSets"] == nil || !strings.Contains(methodSetsType, "*methodSet") {
			return nil, fmt.Errorf("methodSet.mapping: Program.methodSets (type %q) no longer holds *methodSet values under a mutex", methodSetsType)
		}
		if tables["mapping"] != nil {
			return nil, fmt.Errorf("field name mapping is ambiguous")
		}
		guards = append(guards, c18Guard{field: "mapping", mutex: tables["methodSets"].mutex, owner: "methodSet", same: false})
		for i := range guards {
			tables[guards[i].field] = &guards[i]
		}
	}
	if len(guards) == 0 {
		return nil, fmt.Errorf("no mutex-guarded table found in go/ir")
	}

	// every other struct field with the name of a guarded table would be confused with it
	for _, sf := range files {
		var bad error
		ast.Inspect(sf.f, func(n ast.Node) bool {
			ts, ok := n.(*ast.TypeSpec)
			if !ok {
				return true
			}
			st, ok := ts.Type.(*ast.StructType)
			if !ok {
				return true
			}
			for _, fld := range st.Fields.List {
				for _, nm := range fld.Names {
					if g := tables[nm.Name]; g != nil && g.owner != ts.Name.Name {
						bad = fmt.Errorf("%s: struct %s also has a field named %s (guarded table of %s)", sf.name, ts.Name.Name, nm.Name, g.owner)
					}
					if mutexes[nm.Name] && !isSyncType(fld.Type, "Mutex") {
						bad = fmt.Errorf("%s: struct %s has a non-mutex field named %s", sf.name, ts.Name.Name, nm.Name)
					}
				}
			}
			return true
		})
		if bad != nil {
			return nil, bad
		}
	}

	// ---- 2. traces
	methodNames := map[string]bool{}
	for _, sf := range files {
		for _, d := range sf.f.Decls {
			if fd, ok := d.(*ast.FuncDecl); ok && fd.Recv != nil {
				methodNames[fd.Name.Name] = true
			}
		}
	}
	var units []c18Unit
	var fresh []string
	for _, sf := range files {
		for _, d := range sf.f.Decls {
			fd, ok := d.(*ast.FuncDecl)
			if !ok || fd.Body == nil {
				continue
			}
			name := fd.Name.Name
			if fd.Recv != nil && len(fd.Recv.List) == 1 {
				t := fd.Recv.List[0].Type
				if s, ok := t.(*ast.StarExpr); ok {
					t = s.X
				}
				if ix, ok := t.(*ast.IndexExpr); ok {
					t = ix.X
				}
				if id, ok := t.(*ast.Ident); ok {
					name = id.Name + "." + name
				}
			}
			ex := &c18Extractor{fset: fset, mutexes: mutexes, tables: tables, file: sf.name, freshVars: map[string]bool{}, methods: methodNames}
			// locally constructed, not yet shared objects: x := &T{...} / x := new(T)
			ast.Inspect(fd.Body, func(n ast.Node) bool {
				as, ok := n.(*ast.AssignStmt)
				if !ok || as.Tok != token.DEFINE || len(as.Lhs) != 1 || len(as.Rhs) != 1 {
					return true
				}
				id, ok := as.Lhs[0].(*ast.Ident)
				if !ok {
					return true
				}
				switch r := as.Rhs[0].(type) {
				case *ast.UnaryExpr:
					if _, ok := r.X.(*ast.CompositeLit); ok && r.Op == token.AND {
						ex.freshVars[id.Name] = true
					}
				case *ast.CallExpr:
					if f, ok := r.Fun.(*ast.Ident); ok && f.Name == "new" {
						ex.freshVars[id.Name] = true
					}
				}
				return true
			})
			if err := ex.unit(sf.name+":"+name, fd.Body.List); err != nil {
				return nil, err
			}
			units = append(units, ex.units...)
			for _, f := range ex.freshUsed {
				fresh = append(fresh, sf.name+":"+name+":"+f)
			}
		}
	}
	sort.SliceStable(units, func(i, j int) bool { return units[i].name < units[j].name })

	// ---- 3. once-guard: Package.Build's body, the type of the guard, references to Package.build
	var buildStmts []string
	buildRefs := 0
	var buildRecv string
	foundBuild, foundbuild := false, false
	for _, sf := range files {
		if fd := findMethod(sf.f, "Package", "Build"); fd != nil && fd.Body != nil {
			foundBuild = true
			if len(fd.Recv.List[0].Names) == 1 {
				buildRecv = fd.Recv.List[0].Names[0].Name
			}
			for _, st := range fd.Body.List {
				buildStmts = append(buildStmts, c18Print(fset, st))
			}
		}
		if fd := findMethod(sf.f, "Package", "build"); fd != nil {
			foundbuild = true
		}
	}
	if !foundBuild || !foundbuild || buildRecv == "" {
		return nil, fmt.Errorf("Package.Build / Package.build not found")
	}
	if onceFields["Package.buildOnce"] == "" {
		// keep going: the obligation on gen_build_stmts/gen_once_field fails in Coq and names the problem
	}
	// references X.build where X is declared with type *Package / Package.
	// Package.build takes no parameters: a call with arguments, an assignment to X.build or a
	// comparison with nil can only be the Function.build field (or another type's method).
	for _, sf := range files {
		var bad error
		var stack []ast.Node
		ast.Inspect(sf.f, func(n ast.Node) bool {
			if n == nil {
				stack = stack[:len(stack)-1]
				return true
			}
			stack = append(stack, n)
			sel, ok := n.(*ast.SelectorExpr)
			if !ok || sel.Sel.Name != "build" {
				return true
			}
			var parent ast.Node
			if len(stack) > 1 {
				parent = stack[len(stack)-2]
			}
			typ := ""
			if id, ok := sel.X.(*ast.Ident); ok && id.Obj != nil {
				switch d := id.Obj.Decl.(type) {
				case *ast.Field:
					typ = c18Print(fset, d.Type)
				case *ast.ValueSpec:
					if d.Type != nil {
						typ = c18Print(fset, d.Type)
					}
				case *ast.AssignStmt:
					if len(d.Lhs) == 1 && len(d.Rhs) == 1 {
						if u, ok := d.Rhs[0].(*ast.UnaryExpr); ok && u.Op == token.AND {
							if cl, ok := u.X.(*ast.CompositeLit); ok && cl.Type != nil {
								typ = c18Print(fset, cl.Type)
							}
						}
					}
				}
			}
			switch strings.TrimPrefix(typ, "*") {
			case "Package":
				buildRefs++
				return true
			case "":
			default:
				return true // some other type's build member
			}
			switch p := parent.(type) {
			case *ast.CallExpr:
				if p.Fun == sel && len(p.Args) > 0 {
					return true
				}
			case *ast.AssignStmt:
				for _, l := range p.Lhs {
					if l == sel {
						return true
					}
				}
			case *ast.BinaryExpr:
				if id, ok := p.Y.(*ast.Ident); ok && id.Name == "nil" {
					return true
				}
			}
			bad = fmt.Errorf("%s:%d: cannot tell whether %s refers to Package.build", sf.name, fset.Position(sel.Pos()).Line, c18Print(fset, sel))
			return true
		})
		if bad != nil {
			return nil, bad
		}
	}

	// ---- 4. builder.iterate: statements in order (the for loop is summarised by its header)
	var iterStmts []string
	var progBuildCalls []string
	for _, sf := range files {
		if fd := findMethod(sf.f, "builder", "iterate"); fd != nil && fd.Body != nil {
			for _, st := range fd.Body.List {
				if fs, ok := st.(*ast.ForStmt); ok {
					body := []string{}
					for _, b := range fs.Body.List {
						body = append(body, c18Print(fset, b))
					}
					hdr := ""
					if fs.Init != nil {
						hdr += c18Print(fset, fs.Init)
					}
					hdr += "; "
					if fs.Cond != nil {
						hdr += c18Print(fset, fs.Cond)
					}
					hdr += "; "
					if fs.Post != nil {
						hdr += c18Print(fset, fs.Post)
					}
					iterStmts = append(iterStmts, "for "+hdr+" { "+strings.Join(body, "; ")+" }")
				} else {
					iterStmts = append(iterStmts, c18Print(fset, st))
				}
			}
		}
		if fd := findMethod(sf.f, "builder", "buildFunction"); fd != nil && fd.Body != nil {
			// the statements of the `if fn.build != nil` body that are calls on fn, in order
			ast.Inspect(fd.Body, func(n ast.Node) bool {
				es, ok := n.(*ast.ExprStmt)
				if !ok {
					return true
				}
				s := c18Print(fset, es)
				if strings.HasPrefix(s, "verif") || strings.HasPrefix(s, "assert(") {
					return true
				}
				progBuildCalls = append(progBuildCalls, s)
				return true
			})
		}
	}
	if len(iterStmts) == 0 {
		return nil, fmt.Errorf("builder.iterate not found")
	}

	// ---- 5. go/ir/task.go: every function with its statements (hook calls removed). The task-graph model is a
	// hand transcription of exactly this text; any edit must be matched by the model (obligation task_shape).
	var taskFuncs []string
	for _, sf := range files {
		if sf.name != "task.go" {
			continue
		}
		for _, d := range sf.f.Decls {
			fd, ok := d.(*ast.FuncDecl)
			if !ok || fd.Body == nil {
				continue
			}
			c18StripHooks(fd.Body)
			var stmts []string
			for _, st := range fd.Body.List {
				stmts = append(stmts, coqString(c18PrintNoComments(fset, st)))
			}
			taskFuncs = append(taskFuncs, fmt.Sprintf("(%s, %s)", coqString(fd.Name.Name), coqList(stmts)))
		}
		// the fields of struct task
		for _, d := range sf.f.Decls {
			gd, ok := d.(*ast.GenDecl)
			if !ok {
				continue
			}
			for _, sp := range gd.Specs {
				ts, ok := sp.(*ast.TypeSpec)
				if !ok || ts.Name.Name != "task" {
					continue
				}
				st, ok := ts.Type.(*ast.StructType)
				if !ok {
					return nil, fmt.Errorf("task.go: task is no longer a struct")
				}
				var flds []string
				for _, f := range st.Fields.List {
					for _, n := range f.Names {
						flds = append(flds, coqString(n.Name+" "+c18PrintNoComments(fset, f.Type)))
					}
				}
				taskFuncs = append(taskFuncs, fmt.Sprintf("(%s, %s)", coqString("type task"), coqList(flds)))
			}
		}
	}
	if len(taskFuncs) == 0 {
		return nil, fmt.Errorf("go/ir/task.go not found or empty")
	}

	// ---- output
	var b strings.Builder
	b.WriteString("From Coq Require Import List String.\nImport ListNotations.\nRequire Import Verif.Model.C18_Types.\nOpen Scope string_scope.\n\n")
	b.WriteString("(* go/ir struct declarations: (table field, mutex field, accesses must go through the same base expression as the Lock) *)\n")
	var gs []string
	for _, g := range guards {
		gs = append(gs, fmt.Sprintf("(%s, %s, %v)", coqString(g.field), coqString(g.mutex), g.same))
	}
	fmt.Fprintf(&b, "Definition gen_guards : list (string * string * bool) :=\n  %s.\n\n", coqList(gs))
	var os_ []string
	for _, g := range guards {
		os_ = append(os_, fmt.Sprintf("(%s, %s)", coqString(g.field), coqString(g.owner)))
	}
	fmt.Fprintf(&b, "Definition gen_table_owner : list (string * string) :=\n  %s.\n\n", coqList(os_))
	b.WriteString("(* per function / self-locking function literal: lock and table operations in source order *)\n")
	var us []string
	for _, u := range units {
		us = append(us, fmt.Sprintf("(%s,\n     %s)", coqString(u.name), coqList(u.ops)))
	}
	fmt.Fprintf(&b, "Definition gen_traces : list (string * list op) :=\n  [ %s ].\n\n", strings.Join(us, ";\n    "))
	var fr []string
	for _, f := range fresh {
		fr = append(fr, coqString(f))
	}
	b.WriteString("(* accesses left out because the object is constructed in the same function and not yet shared *)\n")
	fmt.Fprintf(&b, "Definition gen_fresh_exempt : list string := %s.\n\n", coqList(fr))
	var pm []string
	for _, m := range pkgMutexes {
		pm = append(pm, coqString(m))
	}
	fmt.Fprintf(&b, "(* package-level mutexes (guard printing to stdout, no table) *)\nDefinition gen_pkg_mutexes : list string := %s.\n\n", coqList(pm))
	var bs []string
	for _, s := range buildStmts {
		bs = append(bs, coqString(s))
	}
	b.WriteString("(* (p *Package) Build: statements of the body; receiver name; type of Package.buildOnce; number of references to Package.build *)\n")
	fmt.Fprintf(&b, "Definition gen_build_stmts : list string := %s.\n", coqList(bs))
	fmt.Fprintf(&b, "Definition gen_build_recv : string := %s.\n", coqString(buildRecv))
	fmt.Fprintf(&b, "Definition gen_once_field_type : string := %s.\n", coqString(onceFields["Package.buildOnce"]))
	fmt.Fprintf(&b, "Definition gen_build_refs : nat := %d.\n\n", buildRefs)
	var is []string
	for _, s := range iterStmts {
		is = append(is, coqString(s))
	}
	b.WriteString("(* (b *builder) iterate: statements in order *)\n")
	fmt.Fprintf(&b, "Definition gen_iterate_stmts : list string := %s.\n", coqList(is))
	var pb []string
	for _, s := range progBuildCalls {
		pb = append(pb, coqString(s))
	}
	b.WriteString("(* go/ir/task.go: struct task and every function, statement by statement, verif hook calls removed *)\n")
	fmt.Fprintf(&b, "Definition gen_task_source : list (string * list string) :=\n  [ %s ].\n\n", strings.Join(taskFuncs, ";\n    "))
	b.WriteString("(* (b *builder) buildFunction: call statements in order *)\n")
	fmt.Fprintf(&b, "Definition gen_buildfunction_calls : list string := %s.\n", coqList(pb))
	return map[string]string{"C18_LockTraces.v": b.String()}, nil
}

// c18StripHooks removes calls to verif* functions (statements `verifX(...)` and `v := verifX(...)`) in place.
func c18StripHooks(n ast.Node) {
	isHook := func(e ast.Expr) bool {
		call, ok := e.(*ast.CallExpr)
		if !ok {
			return false
		}
		id, ok := call.Fun.(*ast.Ident)
		return ok && strings.HasPrefix(id.Name, "verif")
	}
	filter := func(list []ast.Stmt) []ast.Stmt {
		var out []ast.Stmt
		for _, st := range list {
			switch s := st.(type) {
			case *ast.ExprStmt:
				if isHook(s.X) {
					continue
				}
			case *ast.AssignStmt:
				if len(s.Rhs) == 1 && isHook(s.Rhs[0]) {
					continue
				}
			}
			out = append(out, st)
		}
		return out
	}
	ast.Inspect(n, func(n ast.Node) bool {
		switch b := n.(type) {
		case *ast.BlockStmt:
			b.List = filter(b.List)
		case *ast.CaseClause:
			b.Body = filter(b.Body)
		case *ast.CommClause:
			b.Body = filter(b.Body)
		}
		return true
	})
}

// c18PrintNoComments prints a node on one line; comments inside are dropped (the node is printed detached
// from the file's comment list).
func c18PrintNoComments(fset *token.FileSet, n ast.Node) string {
	var buf bytes.Buffer
	printer.Fprint(&buf, fset, n)
	return strings.Join(strings.Fields(buf.String()), " ")
}

type c18Extractor struct {
	fset      *token.FileSet
	mutexes   map[string]bool
	tables    map[string]*c18Guard
	file      string
	units     []c18Unit
	freshVars map[string]bool
	methods   map[string]bool // names of methods declared in the package
	freshUsed []string
	nlit      int
}

// lockCall recognises B.M.Lock() / B.M.Unlock() on a known mutex field.
func (ex *c18Extractor) lockCall(e ast.Expr) (kind, base, mutex string, ok bool, err error) {
	call, isCall := e.(*ast.CallExpr)
	if !isCall {
		return
	}
	sel, isSel := call.Fun.(*ast.SelectorExpr)
	if !isSel {
		return
	}
	msel, isSel := sel.X.(*ast.SelectorExpr)
	if !isSel || !ex.mutexes[msel.Sel.Name] {
		return
	}
	b, okb := c18Expr(msel.X)
	if !okb {
		err = fmt.Errorf("%s:%d: mutex %s reached through a complex expression", ex.file, ex.fset.Position(e.Pos()).Line, msel.Sel.Name)
		return
	}
	switch sel.Sel.Name {
	case "Lock", "Unlock":
		return sel.Sel.Name, b, msel.Sel.Name, true, nil
	default:
		err = fmt.Errorf("%s:%d: unmodelled mutex operation %s.%s", ex.file, ex.fset.Position(e.Pos()).Line, msel.Sel.Name, sel.Sel.Name)
		return
	}
}

// hasLockOps reports whether the statement list has lock operations on known mutexes at its top level.
func (ex *c18Extractor) hasTopLevelLock(stmts []ast.Stmt) bool {
	for _, st := range stmts {
		switch st := st.(type) {
		case *ast.ExprStmt:
			if _, _, _, ok, _ := ex.lockCall(st.X); ok {
				return true
			}
		case *ast.DeferStmt:
			if _, _, _, ok, _ := ex.lockCall(st.Call); ok {
				return true
			}
		}
	}
	return false
}

func (ex *c18Extractor) unit(name string, stmts []ast.Stmt) error {
	var ops []string
	for _, st := range stmts {
		switch s := st.(type) {
		case *ast.ExprStmt:
			kind, b, m, ok, err := ex.lockCall(s.X)
			if err != nil {
				return err
			}
			if ok {
				ops = append(ops, fmt.Sprintf("%s %s %s", kind, coqString(b), coqString(m)))
				continue
			}
		case *ast.DeferStmt:
			kind, b, m, ok, err := ex.lockCall(s.Call)
			if err != nil {
				return err
			}
			if ok {
				if kind != "Unlock" {
					return fmt.Errorf("%s: defer of %s.%s.Lock()", name, b, m)
				}
				ops = append(ops, fmt.Sprintf("DeferUnlock %s %s", coqString(b), coqString(m)))
				continue
			}
		}
		more, err := ex.walk(name, st)
		if err != nil {
			return err
		}
		ops = append(ops, more...)
	}
	if len(ops) > 0 {
		ex.units = append(ex.units, c18Unit{name, ops})
	}
	return nil
}

// walk collects the table accesses below n in source order; nested lock operations are errors.
func (ex *c18Extractor) walk(unit string, root ast.Node) ([]string, error) {
	var ops []string
	var stack []ast.Node
	var err error
	fail := func(n ast.Node, format string, a ...any) {
		if err == nil {
			err = fmt.Errorf("%s (%s:%d): %s", unit, ex.file, ex.fset.Position(n.Pos()).Line, fmt.Sprintf(format, a...))
		}
	}
	ast.Inspect(root, func(n ast.Node) bool {
		if err != nil {
			return false
		}
		if n == nil {
			stack = stack[:len(stack)-1]
			return true
		}
		// function literal: own unit if it locks by itself, otherwise inline only when invoked on the spot
		if lit, ok := n.(*ast.FuncLit); ok {
			if ex.hasTopLevelLock(lit.Body.List) {
				ex.nlit++
				if e := ex.unit(fmt.Sprintf("%s:func%d", unit, ex.nlit), lit.Body.List); e != nil {
					err = e
				}
				return false
			}
			sub, e := ex.walk(unit, lit.Body)
			if e != nil {
				err = e
				return false
			}
			if len(sub) > 0 {
				invoked := false
				if len(stack) > 0 {
					if call, ok := stack[len(stack)-1].(*ast.CallExpr); ok && call.Fun == lit {
						invoked = true
					}
				}
				if !invoked {
					fail(n, "function literal touching a guarded table is not invoked on the spot")
					return false
				}
				// invoked on the spot: is the call itself under go/defer?
				if len(stack) > 1 {
					switch stack[len(stack)-2].(type) {
					case *ast.GoStmt, *ast.DeferStmt:
						fail(n, "guarded table touched inside go/defer")
						return false
					}
				}
				ops = append(ops, sub...)
			}
			return false
		}
		if call, ok := n.(*ast.CallExpr); ok {
			if _, _, _, isLock, e := ex.lockCall(call); e != nil {
				err = e
				return false
			} else if isLock {
				fail(n, "lock operation nested in control flow or in an expression")
				return false
			}
		}
		if sel, ok := n.(*ast.SelectorExpr); ok {
			g := ex.tables[sel.Sel.Name]
			if g != nil && len(stack) > 0 {
				// X.name(...) where name is also a declared method: a method call, not the table
				if call, ok := stack[len(stack)-1].(*ast.CallExpr); ok && call.Fun == sel {
					if ex.methods[sel.Sel.Name] {
						g = nil
					} else {
						fail(n, "guarded table %s is called like a function", sel.Sel.Name)
						return false
					}
				}
			}
			if g != nil {
				base, okb := c18Expr(sel.X)
				if !okb {
					fail(n, "guarded table %s reached through a complex expression", sel.Sel.Name)
					return false
				}
				for _, a := range stack {
					switch a.(type) {
					case *ast.GoStmt:
						fail(n, "guarded table %s touched inside a go statement", sel.Sel.Name)
						return false
					case *ast.DeferStmt:
						fail(n, "guarded table %s touched inside a defer statement", sel.Sel.Name)
						return false
					}
				}
				kind, why := ex.classify(sel, stack)
				if kind == "" {
					fail(n, "cannot classify access to %s.%s: %s", base, sel.Sel.Name, why)
					return false
				}
				if id, ok := sel.X.(*ast.Ident); ok && ex.freshVars[id.Name] {
					ex.freshUsed = append(ex.freshUsed, base+"."+sel.Sel.Name)
				} else {
					ops = append(ops, fmt.Sprintf("%s %s %s", kind, coqString(base), coqString(sel.Sel.Name)))
				}
				stack = append(stack, n)
				return true
			}
			if ex.mutexes[sel.Sel.Name] {
				// a mutex mentioned outside a recognised Lock/Unlock call
				if len(stack) > 0 {
					if p, ok := stack[len(stack)-1].(*ast.SelectorExpr); ok && p.X == sel && (p.Sel.Name == "Lock" || p.Sel.Name == "Unlock") {
						stack = append(stack, n)
						return true
					}
				}
				fail(n, "mutex %s used other than by Lock/Unlock", sel.Sel.Name)
				return false
			}
		}
		stack = append(stack, n)
		return true
	})
	return ops, err
}

// classify decides Read/Write for the table selector sel given its ancestors (innermost last).
func (ex *c18Extractor) classify(sel *ast.SelectorExpr, stack []ast.Node) (string, string) {
	if len(stack) == 0 {
		return "", "no context"
	}
	var cur ast.Node = sel
	parent := stack[len(stack)-1]
	up := func(i int) ast.Node {
		if len(stack)-1-i >= 0 {
			return stack[len(stack)-1-i]
		}
		return nil
	}
	for {
		if p, ok := parent.(*ast.ParenExpr); ok {
			cur = p
			parent = up(1)
			stack = stack[:len(stack)-1]
			continue
		}
		break
	}
	isLHS := func(as *ast.AssignStmt, e ast.Node) bool {
		for _, l := range as.Lhs {
			if l == e {
				return true
			}
		}
		return false
	}
	switch p := parent.(type) {
	case *ast.AssignStmt:
		if isLHS(p, cur) {
			if p.Tok == token.DEFINE {
				return "", "table on the left of :="
			}
			return "Write", ""
		}
		return "", "table value copied (alias)"
	case *ast.IndexExpr:
		if p.X != cur {
			return "", "table used as an index"
		}
		switch gp := up(1).(type) {
		case *ast.AssignStmt:
			if isLHS(gp, p) {
				return "Write", ""
			}
			return "Read", ""
		case *ast.IncDecStmt:
			return "Write", ""
		case *ast.UnaryExpr:
			if gp.Op == token.AND {
				return "", "address of a table element"
			}
			return "Read", ""
		default:
			return "Read", ""
		}
	case *ast.SelectorExpr:
		if p.X != cur {
			return "", "unexpected selector"
		}
		name := p.Sel.Name
		switch gp := up(1).(type) {
		case *ast.CallExpr:
			if gp.Fun == p {
				if c18WriteMethods[name] {
					return "Write", ""
				}
				if c18ReadMethods[name] {
					return "Read", ""
				}
				return "", "unknown method " + name
			}
		case *ast.AssignStmt:
			if isLHS(gp, p) {
				return "Write", ""
			}
		}
		// method value or sub-field read
		if c18WriteMethods[name] {
			return "Write", ""
		}
		if c18ReadMethods[name] {
			return "Read", ""
		}
		return "", "unknown member " + name
	case *ast.BinaryExpr:
		if p.Op == token.EQL || p.Op == token.NEQ {
			return "Read", ""
		}
		return "", "table in arithmetic"
	case *ast.RangeStmt:
		if p.X == cur {
			return "Read", ""
		}
		return "", "table as range variable"
	case *ast.CallExpr:
		if id, ok := p.Fun.(*ast.Ident); ok {
			switch id.Name {
			case "len":
				return "Read", ""
			case "delete", "clear":
				return "Write", ""
			}
		}
		return "", "table passed to a function"
	case *ast.UnaryExpr:
		return "", "address of a table"
	}
	return "", fmt.Sprintf("context %T", parent)
}
