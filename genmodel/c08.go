package main

import (
	"fmt"
	"go/ast"
	"go/token"
	"sort"
	"strings"
)

// C08: pattern/parser.go
//   - allTypes, nodeToASTTypes (row per pattern node type: list of go/ast kinds | allTypes | nil), structNodes
//   - per case of collectEntryNodes: recurse into a list field / recurse into a field / all kinds / table
//   - per case of collectSymbols: Or / Any / Symbol name / String / recurse field / And of named fields / And of all fields
// analysis/code/visit.go
//   - CouldMatchAny: whether an IndexSymbol with an empty package path counts as present
//   - Matches: the conditions under which the root-call index is used instead of the entry-kind search
func init() { register("C08", genC08) }

// typeForName: reflect.TypeFor[X]() or reflect.TypeFor[*ast.X]() -> X
func typeForName(e ast.Expr) (string, bool) {
	call, ok := e.(*ast.CallExpr)
	if !ok || len(call.Args) != 0 {
		return "", false
	}
	ix, ok := call.Fun.(*ast.IndexExpr)
	if !ok {
		return "", false
	}
	if sel, ok := ix.X.(*ast.SelectorExpr); !ok || sel.Sel.Name != "TypeFor" {
		return "", false
	}
	t := ix.Index
	if s, ok := t.(*ast.StarExpr); ok {
		t = s.X
	}
	switch t := t.(type) {
	case *ast.Ident:
		return t.Name, true
	case *ast.SelectorExpr:
		return t.Sel.Name, true
	}
	return "", false
}

func findVar(f *ast.File, name string) ast.Expr {
	for _, d := range f.Decls {
		gd, ok := d.(*ast.GenDecl)
		if !ok || gd.Tok != token.VAR {
			continue
		}
		for _, sp := range gd.Specs {
			vs := sp.(*ast.ValueSpec)
			for i, n := range vs.Names {
				if n.Name == name && i < len(vs.Values) {
					return vs.Values[i]
				}
			}
		}
	}
	return nil
}

// caseTypes renders the types of a case clause: Or, Not, nil, ...
func caseTypes(cc *ast.CaseClause) []string {
	var out []string
	for _, e := range cc.List {
		switch e := e.(type) {
		case *ast.Ident:
			out = append(out, e.Name)
		default:
			out = append(out, "?")
		}
	}
	return out
}

// isRecCall: collectX(node.F, ...) -> F
func recCallField(e ast.Expr, fn string) (string, []ast.Expr, bool) {
	call, ok := e.(*ast.CallExpr)
	if !ok || !isIdent(call.Fun, fn) || len(call.Args) < 1 {
		return "", nil, false
	}
	f, ok := selField(call.Args[0], "node")
	return f, call.Args, ok
}

func genC08(repo string) (map[string]string, error) {
	_, f, err := parseFile(repo, "pattern/parser.go")
	if err != nil {
		return nil, err
	}
	// ---- allTypes
	at, ok := findVar(f, "allTypes").(*ast.CompositeLit)
	if !ok {
		return nil, fmt.Errorf("allTypes: not a composite literal")
	}
	var allTypes []string
	for _, e := range at.Elts {
		n, ok := typeForName(e)
		if !ok {
			return nil, fmt.Errorf("allTypes: unrecognised element")
		}
		allTypes = append(allTypes, n)
	}
	// ---- nodeToASTTypes
	nt, ok := findVar(f, "nodeToASTTypes").(*ast.CompositeLit)
	if !ok {
		return nil, fmt.Errorf("nodeToASTTypes: not a composite literal")
	}
	var rows []string
	for _, e := range nt.Elts {
		kv := e.(*ast.KeyValueExpr)
		key, ok := typeForName(kv.Key)
		if !ok {
			return nil, fmt.Errorf("nodeToASTTypes: unrecognised key")
		}
		var row string
		switch v := kv.Value.(type) {
		case *ast.Ident:
			switch v.Name {
			case "nil":
				row = "[]"
			case "allTypes":
				row = "gen_all_types"
			default:
				return nil, fmt.Errorf("nodeToASTTypes[%s]: unrecognised value %s", key, v.Name)
			}
		case *ast.CompositeLit:
			var l []string
			for _, el := range v.Elts {
				n, ok := typeForName(el)
				if !ok {
					return nil, fmt.Errorf("nodeToASTTypes[%s]: unrecognised element", key)
				}
				l = append(l, coqString(n))
			}
			row = coqList(l)
		default:
			return nil, fmt.Errorf("nodeToASTTypes[%s]: unrecognised value", key)
		}
		rows = append(rows, fmt.Sprintf("(%s, %s)", coqString(key), row))
	}
	// ---- structNodes
	sn, ok := findVar(f, "structNodes").(*ast.CompositeLit)
	if !ok {
		return nil, fmt.Errorf("structNodes: not a composite literal")
	}
	var structNodes []string
	for _, e := range sn.Elts {
		kv := e.(*ast.KeyValueExpr)
		lit, ok := kv.Key.(*ast.BasicLit)
		if !ok {
			return nil, fmt.Errorf("structNodes: unrecognised key")
		}
		structNodes = append(structNodes, strings.Trim(lit.Value, `"`))
	}
	sort.Strings(structNodes)

	// ---- collectEntryNodes
	ce := findFunc(f, "collectEntryNodes")
	if ce == nil || len(ce.Body.List) != 1 {
		return nil, fmt.Errorf("collectEntryNodes: unrecognised shape")
	}
	sw, ok := ce.Body.List[0].(*ast.TypeSwitchStmt)
	if !ok {
		return nil, fmt.Errorf("collectEntryNodes: not a type switch")
	}
	isAllLoop := func(st ast.Stmt) bool {
		rs, ok := st.(*ast.RangeStmt)
		return ok && isIdent(rs.X, "allTypes") && len(rs.Body.List) == 1
	}
	var ebeh []string
	for _, c := range sw.Body.List {
		cc := c.(*ast.CaseClause)
		var beh string
		switch {
		case len(cc.Body) == 1 && isAllLoop(cc.Body[0]):
			beh = "EAll"
		case len(cc.Body) == 1:
			if es, ok := cc.Body[0].(*ast.ExprStmt); ok {
				if fld, _, ok := recCallField(es.X, "collectEntryNodes"); ok {
					beh = "ERec " + coqString(fld)
					break
				}
			}
			if rs, ok := cc.Body[0].(*ast.RangeStmt); ok && len(rs.Body.List) == 1 {
				if fld, ok := selField(rs.X, "node"); ok {
					if es, ok := rs.Body.List[0].(*ast.ExprStmt); ok {
						if call, ok := es.X.(*ast.CallExpr); ok && isIdent(call.Fun, "collectEntryNodes") {
							beh = "ERecList " + coqString(fld)
							break
						}
					}
				}
			}
		case cc.List == nil:
			// default: Ts, ok := nodeToASTTypes[reflect.TypeOf(node)]; if !ok panic; for T in Ts: m[T]
			src := false
			ast.Inspect(cc, func(n ast.Node) bool {
				if ix, ok := n.(*ast.IndexExpr); ok && isIdent(ix.X, "nodeToASTTypes") {
					src = true
				}
				return true
			})
			if src {
				beh = "ETable"
			}
		}
		if beh == "" {
			return nil, fmt.Errorf("collectEntryNodes: case %v has an unrecognised body", caseTypes(cc))
		}
		if cc.List == nil {
			ebeh = append(ebeh, fmt.Sprintf("(%s, %s)", coqString("default"), beh))
		}
		for _, t := range caseTypes(cc) {
			ebeh = append(ebeh, fmt.Sprintf("(%s, %s)", coqString(t), beh))
		}
	}

	// ---- collectSymbols
	cs := findFunc(f, "collectSymbols")
	if cs == nil {
		return nil, fmt.Errorf("collectSymbols not found")
	}
	var ssw *ast.TypeSwitchStmt
	for _, st := range cs.Body.List {
		if s, ok := st.(*ast.TypeSwitchStmt); ok {
			ssw = s
		}
	}
	if ssw == nil {
		return nil, fmt.Errorf("collectSymbols: no type switch")
	}
	var sbeh []string
	for _, c := range ssw.Body.List {
		cc := c.(*ast.CaseClause)
		beh := ""
		if len(cc.Body) == 1 {
			if ret, ok := cc.Body[0].(*ast.ReturnStmt); ok && len(ret.Results) == 1 {
				if cl, ok := ret.Results[0].(*ast.CompositeLit); ok && isIdent(cl.Type, "Any") {
					beh = "SBAny"
				} else if fld, args, ok := recCallField(ret.Results[0], "collectSymbols"); ok && len(args) == 2 {
					if isIdent(args[1], "true") {
						beh = "SBSymbol " + coqString(fld)
					} else if isIdent(args[1], "inSymbol") {
						beh = "SBRec " + coqString(fld)
					}
				}
			}
		}
		if beh == "" {
			// classify the compound bodies by what they call
			var callsSym, orLit, refl bool
			var andFields []string
			ast.Inspect(cc, func(n ast.Node) bool {
				switch n := n.(type) {
				case *ast.CallExpr:
					if isIdent(n.Fun, "symbolToIndexSymbol") {
						callsSym = true
					}
					if isIdent(n.Fun, "and") && len(n.Args) == 2 {
						if fld, _, ok := recCallField(n.Args[0], "collectSymbols"); ok {
							andFields = append(andFields, coqString(fld))
						}
					}
					if sel, ok := n.Fun.(*ast.SelectorExpr); ok && sel.Sel.Name == "ValueOf" {
						refl = true
					}
				case *ast.CompositeLit:
					if isIdent(n.Type, "Or") {
						orLit = true
					}
				}
				return true
			})
			switch {
			case orLit:
				beh = "SBOr"
			case callsSym:
				beh = "SBString"
			case len(andFields) > 0:
				beh = "SBAnd " + coqList(andFields)
			case refl && cc.List == nil:
				beh = "SBAndAll"
			}
		}
		if beh == "" {
			return nil, fmt.Errorf("collectSymbols: case %v has an unrecognised body", caseTypes(cc))
		}
		if cc.List == nil {
			sbeh = append(sbeh, fmt.Sprintf("(%s, %s)", coqString("default"), beh))
		}
		for _, t := range caseTypes(cc) {
			sbeh = append(sbeh, fmt.Sprintf("(%s, %s)", coqString(t), beh))
		}
	}

	// ---- analysis/code/visit.go
	_, vf, err := parseFile(repo, "analysis/code/visit.go")
	if err != nil {
		return nil, err
	}
	cma := findFunc(vf, "CouldMatchAny")
	if cma == nil {
		return nil, fmt.Errorf("CouldMatchAny not found")
	}
	// inside `case pattern.IndexSymbol:` is there a test of node.Path against "" that returns true?
	emptyPathAny := false
	ast.Inspect(cma, func(n ast.Node) bool {
		cc, ok := n.(*ast.CaseClause)
		if !ok || len(cc.List) != 1 {
			return true
		}
		if sel, ok := cc.List[0].(*ast.SelectorExpr); !ok || sel.Sel.Name != "IndexSymbol" {
			return true
		}
		for _, st := range cc.Body {
			ifs, ok := st.(*ast.IfStmt)
			if !ok {
				continue
			}
			be, ok := ifs.Cond.(*ast.BinaryExpr)
			if !ok || be.Op != token.EQL {
				continue
			}
			fld, ok1 := selField(be.X, "node")
			lit, ok2 := be.Y.(*ast.BasicLit)
			if ok1 && ok2 && fld == "Path" && lit.Value == `""` && len(ifs.Body.List) == 1 {
				if ret, ok := ifs.Body.List[0].(*ast.ReturnStmt); ok && len(ret.Results) == 1 && isIdent(ret.Results[0], "true") {
					emptyPathAny = true
				}
			}
		}
		return true
	})
	// Matches: does the file guard the root-call path for universe-scoped symbols and type names?
	src := func(name string) bool {
		found := false
		ast.Inspect(vf, func(n ast.Node) bool {
			if id, ok := n.(*ast.Ident); ok && id.Name == name {
				found = true
			}
			return true
		})
		return found
	}
	rootGuardTypeName := false
	rootGuardEmptyPath := false
	if fn := findFunc(vf, "rootCallObjects"); fn != nil {
		ast.Inspect(fn, func(n ast.Node) bool {
			switch n := n.(type) {
			case *ast.TypeAssertExpr:
				if st, ok := n.Type.(*ast.StarExpr); ok {
					if sel, ok := st.X.(*ast.SelectorExpr); ok && sel.Sel.Name == "TypeName" {
						rootGuardTypeName = true
					}
				}
			case *ast.BinaryExpr:
				if n.Op == token.EQL {
					if sel, ok := n.X.(*ast.SelectorExpr); ok && sel.Sel.Name == "Path" {
						if lit, ok := n.Y.(*ast.BasicLit); ok && lit.Value == `""` {
							rootGuardEmptyPath = true
						}
					}
				}
			}
			return true
		})
	}
	_ = src

	var b strings.Builder
	b.WriteString("From Coq Require Import List String ZArith.\nImport ListNotations.\nRequire Import Verif.Model.C09_Types Verif.Model.C08_Types.\nOpen Scope string_scope.\n\n")
	b.WriteString("(* pattern/parser.go: allTypes *)\n")
	fmt.Fprintf(&b, "Definition gen_all_types : list string :=\n  %s.\n\n", strList(allTypes))
	b.WriteString("(* pattern/parser.go: nodeToASTTypes *)\n")
	fmt.Fprintf(&b, "Definition gen_rows : list (string * list string) :=\n  %s.\n\n", coqList(rows))
	b.WriteString("(* pattern/parser.go: structNodes (names a pattern may use) *)\n")
	fmt.Fprintf(&b, "Definition gen_struct_nodes : list string :=\n  %s.\n\n", strList(structNodes))
	b.WriteString("(* pattern/parser.go: collectEntryNodes, per case of its type switch *)\n")
	fmt.Fprintf(&b, "Definition gen_entry_beh : list (string * ebeh) :=\n  %s.\n\n", coqList(ebeh))
	b.WriteString("(* pattern/parser.go: collectSymbols, per case of its type switch *)\n")
	fmt.Fprintf(&b, "Definition gen_sym_beh : list (string * sbeh) :=\n  %s.\n\n", coqList(sbeh))
	b.WriteString("(* analysis/code/visit.go *)\n")
	fmt.Fprintf(&b, "Definition gen_could_empty_path_any : bool := %v.\n", emptyPathAny)
	fmt.Fprintf(&b, "Definition gen_root_guard_empty_path : bool := %v.\n", rootGuardEmptyPath)
	fmt.Fprintf(&b, "Definition gen_root_guard_type_name : bool := %v.\n\n", rootGuardTypeName)
	fmt.Fprintf(&b, "Definition gen_tables : entry_tables := mkTables gen_all_types gen_rows gen_entry_beh gen_sym_beh.\n")
	return map[string]string{"C08_Tables.v": b.String()}, nil
}
