package main

import (
	"fmt"
	"go/ast"
	"go/token"
	"strings"
)

// C06: the order in which printDiagnostics (lintcmd/cmd.go) sorts the diagnostics before printing.
// Extracted: the comparison chain of the sort.Slice closure
//     if X_i != X_j { return X_i < X_j } ... return X_i < X_j
// as the ordered list of compared fields, and whether the closure is passed to sort.Slice on the
// `diagnostics` slice at all. Also the scheduler's synchronisation skeleton in lintcmd/runner/runner.go:
// DecrementPending must be an atomic add of -1 compared with zero, and genericHandle must release the token
// before the trigger loop (both are what the Coq model of the scheduler transcribes).
func init() { register("C06", genC06) }

var c06Fields = map[string]string{
	"Position.Filename": "DPosFile", "Position.Line": "DPosLine", "Position.Column": "DPosCol",
	"Message": "DMessage", "BuildName": "DBuildName", "Category": "DCategory",
	"End.Filename": "DEndFile", "End.Line": "DEndLine", "End.Column": "DEndCol", "Severity": "DSeverity",
	"Position.Offset": "DPosOffset", "End.Offset": "DEndOffset",
}

func genC06(repo string) (map[string]string, error) {
	_, f, err := parseFile(repo, "lintcmd/cmd.go")
	if err != nil {
		return nil, err
	}
	fd := findMethod(f, "Command", "printDiagnostics")
	if fd == nil {
		return nil, fmt.Errorf("printDiagnostics not found")
	}
	var closure *ast.FuncLit
	ast.Inspect(fd.Body, func(n ast.Node) bool {
		call, ok := n.(*ast.CallExpr)
		if !ok || closure != nil {
			return true
		}
		sel, ok := call.Fun.(*ast.SelectorExpr)
		if !ok || len(call.Args) != 2 {
			return true
		}
		if x, ok := sel.X.(*ast.Ident); !ok || x.Name != "sort" || (sel.Sel.Name != "Slice" && sel.Sel.Name != "SliceStable") {
			return true
		}
		if id, ok := call.Args[0].(*ast.Ident); !ok || id.Name != "diagnostics" {
			return true
		}
		if fl, ok := call.Args[1].(*ast.FuncLit); ok {
			closure = fl
		}
		return true
	})
	var key []string
	if closure != nil {
		// local aliases: di := diagnostics[i]; pi := di.Position
		alias := map[string]string{} // name -> path prefix relative to the diagnostic ("" for the diagnostic itself)
		side := map[string]string{}  // name -> "i" / "j"
		path := func(e ast.Expr) (string, string, bool) {
			var parts []string
			for {
				switch x := e.(type) {
				case *ast.SelectorExpr:
					parts = append([]string{x.Sel.Name}, parts...)
					e = x.X
					continue
				case *ast.Ident:
					pre, ok := alias[x.Name]
					if !ok {
						return "", "", false
					}
					if pre != "" {
						parts = append([]string{pre}, parts...)
					}
					return strings.Join(parts, "."), side[x.Name], true
				}
				return "", "", false
			}
		}
		for _, st := range closure.Body.List {
			switch st := st.(type) {
			case *ast.AssignStmt:
				if len(st.Lhs) != 1 || len(st.Rhs) != 1 {
					return nil, fmt.Errorf("printDiagnostics sort closure: unrecognised assignment")
				}
				name := st.Lhs[0].(*ast.Ident).Name
				if ix, ok := st.Rhs[0].(*ast.IndexExpr); ok {
					if id, ok := ix.Index.(*ast.Ident); ok {
						alias[name] = ""
						side[name] = id.Name
						continue
					}
				}
				if p, s, ok := path(st.Rhs[0]); ok {
					alias[name] = p
					side[name] = s
					continue
				}
				return nil, fmt.Errorf("printDiagnostics sort closure: unrecognised assignment to %s", name)
			case *ast.IfStmt:
				be, ok := st.Cond.(*ast.BinaryExpr)
				if !ok || be.Op != token.NEQ || len(st.Body.List) != 1 {
					return nil, fmt.Errorf("printDiagnostics sort closure: unrecognised if")
				}
				ret, ok := st.Body.List[0].(*ast.ReturnStmt)
				if !ok || len(ret.Results) != 1 {
					return nil, fmt.Errorf("printDiagnostics sort closure: if body is not a return")
				}
				lt, ok := ret.Results[0].(*ast.BinaryExpr)
				px, sx, ok1 := path(be.X)
				py, sy, ok2 := path(be.Y)
				if !ok || lt.Op != token.LSS || !ok1 || !ok2 || px != py || sx != "i" || sy != "j" {
					return nil, fmt.Errorf("printDiagnostics sort closure: comparison of %s is not `X_i != X_j -> X_i < X_j`", px)
				}
				lx, _, _ := path(lt.X)
				ly, _, _ := path(lt.Y)
				if lx != px || ly != px {
					return nil, fmt.Errorf("printDiagnostics sort closure: returns a comparison of another field than %s", px)
				}
				fld, ok := c06Fields[px]
				if !ok {
					return nil, fmt.Errorf("printDiagnostics sort closure: unknown field %s", px)
				}
				key = append(key, fld)
			case *ast.ReturnStmt:
				lt, ok := st.Results[0].(*ast.BinaryExpr)
				if !ok || lt.Op != token.LSS {
					return nil, fmt.Errorf("printDiagnostics sort closure: final return is not a < comparison")
				}
				px, sx, ok1 := path(lt.X)
				py, sy, ok2 := path(lt.Y)
				if !ok1 || !ok2 || px != py || sx != "i" || sy != "j" {
					return nil, fmt.Errorf("printDiagnostics sort closure: final return unrecognised")
				}
				fld, ok := c06Fields[px]
				if !ok {
					return nil, fmt.Errorf("printDiagnostics sort closure: unknown field %s", px)
				}
				key = append(key, fld)
			default:
				return nil, fmt.Errorf("printDiagnostics sort closure: unrecognised statement")
			}
		}
	}

	// runner.go: DecrementPending and the release-before-triggers order of genericHandle
	_, rf, err := parseFile(repo, "lintcmd/runner/runner.go")
	if err != nil {
		return nil, err
	}
	atomicDec := false
	if dp := findMethod(rf, "baseAction", "DecrementPending"); dp != nil && len(dp.Body.List) == 1 {
		if ret, ok := dp.Body.List[0].(*ast.ReturnStmt); ok && len(ret.Results) == 1 {
			if be, ok := ret.Results[0].(*ast.BinaryExpr); ok && be.Op == token.EQL {
				if call, ok := be.X.(*ast.CallExpr); ok {
					if sel, ok := call.Fun.(*ast.SelectorExpr); ok {
						if x, ok := sel.X.(*ast.Ident); ok && x.Name == "atomic" && sel.Sel.Name == "AddUint32" {
							if lit, ok := be.Y.(*ast.BasicLit); ok && lit.Value == "0" {
								atomicDec = true
							}
						}
					}
				}
			}
		}
	}
	releaseFirst := false
	if gh := findFunc(rf, "genericHandle"); gh != nil {
		relPos, loopPos := token.NoPos, token.NoPos
		for _, st := range gh.Body.List {
			switch st := st.(type) {
			case *ast.IfStmt:
				// `if sem != nil { ... sem.Release() }` at the top level of the function body
				ast.Inspect(st.Body, func(n ast.Node) bool {
					if call, ok := n.(*ast.CallExpr); ok {
						if sel, ok := call.Fun.(*ast.SelectorExpr); ok && sel.Sel.Name == "Release" {
							relPos = call.Pos()
						}
					}
					return true
				})
			case *ast.RangeStmt:
				if call, ok := st.X.(*ast.CallExpr); ok {
					if sel, ok := call.Fun.(*ast.SelectorExpr); ok && sel.Sel.Name == "Triggers" {
						loopPos = st.Pos()
					}
				}
			}
		}
		releaseFirst = relPos != token.NoPos && loopPos != token.NoPos && relPos < loopPos
	}

	var b strings.Builder
	b.WriteString("From Coq Require Import List.\nImport ListNotations.\nRequire Import Verif.Model.C06_Out.\n\n")
	b.WriteString("(* lintcmd/cmd.go:printDiagnostics: fields compared by the sort.Slice closure, in order ([] if the slice is not sorted) *)\n")
	fmt.Fprintf(&b, "Definition gen_sort_key : list dfield := %s.\n\n", coqList(key))
	b.WriteString("(* lintcmd/runner/runner.go: DecrementPending is `atomic.AddUint32(&pending, ^uint32(0)) == 0` *)\n")
	fmt.Fprintf(&b, "Definition gen_atomic_decrement : bool := %v.\n", atomicDec)
	b.WriteString("(* genericHandle releases its token before it walks the triggers *)\n")
	fmt.Fprintf(&b, "Definition gen_release_before_triggers : bool := %v.\n", releaseFirst)
	return map[string]string{"C06_SortKey.v": b.String()}, nil
}
