package main

import (
	"fmt"
	"go/ast"
	"go/parser"
	"go/token"
	"os"
	"os/exec"
	"path/filepath"
	"sort"
	"strconv"
	"strings"
)

// C03: every panicking exhaustive switch of /repo (outside tests/testdata) and the universes they dispatch over.
//
//   universes (gen_universes): implementors, by method-name inclusion on the parsed sources, of
//       ir.Instruction / ir.Value / ir.CallInstruction / ir.Node / ir.Member / ir.Constant   (/repo/go/ir)
//       ast.Expr / ast.Stmt / ast.Decl / ast.Spec / ast.Node                                 (GOROOT/src/go/ast)
//       types.Type / types.Object                                                            (GOROOT/src/go/types)
//     plus "builtin" = the names go/ir gives to *ir.Builtin values: predeclaredFuncs of GOROOT go/types/universe.go
//     (exported = package unsafe -> "Unsafe"+name, as go/ir/builder.go spells them) and the synthetic
//     `&Builtin{name: "ssa:..."}` literals of /repo/go/ir.
//   switches (gen_switches): every type switch whose default clause panics (panic(...) or
//     [lint.]ExhaustiveTypeSwitch(...)), every type switch without default that is directly followed by a panic
//     statement, and every expression switch with a panicking default whose cases are string literals or token.X
//     constants; with file, enclosing function, ordinal within the function, line, tag text, case list.
//   filters (gen_filters): for functions that contain a registered switch over nodes delivered by an inspector
//     (code.Preorder / Inspector.Preorder / WithStack / nodeFilter literals): the node-type list passed.
//   go/ir builder facts: names of builtins that builder.builtin lowers itself (gen_builder_builtin_cases).
func init() { register("C03", genC03) }

type c03Type struct {
	name     string
	isIface  bool
	embeds   []string        // embedded type names (same package), star stripped
	methods  map[string]bool // declared (struct: method decls; interface: listed methods); value true = pointer receiver
	declared bool
}

type c03Pkg struct {
	name  string
	types map[string]*c03Type
}

func c03ParseDir(dir, pkgname string) (*c03Pkg, error) {
	fset := token.NewFileSet()
	ents, err := os.ReadDir(dir)
	if err != nil {
		return nil, err
	}
	p := &c03Pkg{name: pkgname, types: map[string]*c03Type{}}
	get := func(n string) *c03Type {
		t := p.types[n]
		if t == nil {
			t = &c03Type{name: n, methods: map[string]bool{}}
			p.types[n] = t
		}
		return t
	}
	nfiles := 0
	for _, e := range ents {
		n := e.Name()
		if e.IsDir() || !strings.HasSuffix(n, ".go") || strings.HasSuffix(n, "_test.go") || strings.HasPrefix(n, "verif_") {
			continue // verif_*.go are the `//go:build verif` hook files of the verification harness, not product code
		}
		f, err := parser.ParseFile(fset, filepath.Join(dir, n), nil, parser.SkipObjectResolution)
		if err != nil {
			return nil, err
		}
		if f.Name.Name != pkgname {
			continue
		}
		nfiles++
		for _, d := range f.Decls {
			switch d := d.(type) {
			case *ast.GenDecl:
				if d.Tok != token.TYPE {
					continue
				}
				for _, s := range d.Specs {
					ts := s.(*ast.TypeSpec)
					t := get(ts.Name.Name)
					t.declared = true
					switch u := ts.Type.(type) {
					case *ast.StructType:
						for _, fl := range u.Fields.List {
							if len(fl.Names) == 0 {
								if en := c03BaseName(fl.Type); en != "" {
									t.embeds = append(t.embeds, en)
								}
							}
						}
					case *ast.InterfaceType:
						t.isIface = true
						for _, m := range u.Methods.List {
							if len(m.Names) == 0 {
								if en := c03BaseName(m.Type); en != "" {
									t.embeds = append(t.embeds, en)
								}
							} else {
								for _, nm := range m.Names {
									t.methods[nm.Name] = false
								}
							}
						}
					}
				}
			case *ast.FuncDecl:
				if d.Recv == nil || len(d.Recv.List) != 1 {
					continue
				}
				rt := d.Recv.List[0].Type
				ptr := false
				if s, ok := rt.(*ast.StarExpr); ok {
					rt = s.X
					ptr = true
				}
				if rn := c03BaseName(rt); rn != "" {
					get(rn).methods[d.Name.Name] = ptr
				}
			}
		}
	}
	if nfiles == 0 {
		return nil, fmt.Errorf("no files of package %s in %s", pkgname, dir)
	}
	return p, nil
}

// base type name of an (embedded / receiver) type expression of the same package; "" for qualified names
func c03BaseName(e ast.Expr) string {
	for {
		switch x := e.(type) {
		case *ast.StarExpr:
			e = x.X
		case *ast.ParenExpr:
			e = x.X
		case *ast.IndexExpr:
			e = x.X
		case *ast.IndexListExpr:
			e = x.X
		case *ast.Ident:
			return x.Name
		default:
			return ""
		}
	}
}

func (p *c03Pkg) methodSet(n string, seen map[string]bool) map[string]bool {
	res := map[string]bool{}
	if seen[n] {
		return res
	}
	seen[n] = true
	t := p.types[n]
	if t == nil {
		return res
	}
	for _, e := range t.embeds {
		for m, ptr := range p.methodSet(e, seen) {
			res[m] = ptr
		}
	}
	for m, ptr := range t.methods {
		res[m] = ptr
	}
	return res
}

// implementors of interface iface among the declared non-interface types, spelled "*pkg.T".
// A type all of whose relevant methods have value receivers would also implement the interface as "pkg.T";
// none of the three packages has such a type for the interfaces used here, and the generator fails if one appears.
func (p *c03Pkg) implementors(iface string, exportedOnly bool) ([]string, error) {
	it := p.types[iface]
	if it == nil || !it.isIface {
		return nil, fmt.Errorf("%s.%s: interface not found", p.name, iface)
	}
	want := p.methodSet(iface, map[string]bool{})
	if len(want) == 0 {
		return nil, fmt.Errorf("%s.%s: empty method set", p.name, iface)
	}
	var res []string
	for n, t := range p.types {
		if t.isIface || !t.declared {
			continue
		}
		if exportedOnly && !ast.IsExported(n) {
			continue
		}
		have := p.methodSet(n, map[string]bool{})
		ok, anyPtr := true, false
		for m := range want {
			ptr, has := have[m]
			if !has {
				ok = false
				break
			}
			anyPtr = anyPtr || ptr
		}
		if !ok {
			continue
		}
		if !anyPtr {
			return nil, fmt.Errorf("%s.%s implements %s with value receivers only: both T and *T are dynamic types; unsupported shape", p.name, n, iface)
		}
		res = append(res, "*"+p.name+"."+n)
	}
	sort.Strings(res)
	if len(res) == 0 {
		return nil, fmt.Errorf("%s.%s: no implementors found", p.name, iface)
	}
	return res, nil
}

type c03Switch struct {
	file, fn string
	ord      int // ordinal (source order) among the recorded switches of the same function with the same tag text
	line     int
	kind     string // "type" | "value"
	style    string // "default" (default clause panics) | "trailing" (no default; next statement panics)
	tag      string
	cases    []string
	how      string // text of the panicking call
}

func c03ExprText(e ast.Expr) string {
	switch x := e.(type) {
	case *ast.Ident:
		return x.Name
	case *ast.SelectorExpr:
		return c03ExprText(x.X) + "." + x.Sel.Name
	case *ast.StarExpr:
		return "*" + c03ExprText(x.X)
	case *ast.ParenExpr:
		return "(" + c03ExprText(x.X) + ")"
	case *ast.CallExpr:
		var as []string
		for _, a := range x.Args {
			as = append(as, c03ExprText(a))
		}
		return c03ExprText(x.Fun) + "(" + strings.Join(as, ", ") + ")"
	case *ast.TypeAssertExpr:
		if x.Type == nil {
			return c03ExprText(x.X) + ".(type)"
		}
		return c03ExprText(x.X) + ".(" + c03ExprText(x.Type) + ")"
	case *ast.BasicLit:
		return x.Value
	case *ast.IndexExpr:
		return c03ExprText(x.X) + "[" + c03ExprText(x.Index) + "]"
	case *ast.UnaryExpr:
		return x.Op.String() + c03ExprText(x.X)
	case *ast.BinaryExpr:
		return c03ExprText(x.X) + x.Op.String() + c03ExprText(x.Y)
	case *ast.ArrayType:
		return "[]" + c03ExprText(x.Elt)
	case *ast.InterfaceType:
		return "interface{}"
	case *ast.FuncLit:
		return "func(){...}"
	}
	return fmt.Sprintf("<%T>", e)
}

// isPanicCall reports whether st is `panic(...)` or `[pkg.]ExhaustiveTypeSwitch(...)`.
func c03PanicCall(st ast.Stmt) (string, bool) {
	es, ok := st.(*ast.ExprStmt)
	if !ok {
		return "", false
	}
	call, ok := es.X.(*ast.CallExpr)
	if !ok {
		return "", false
	}
	switch f := call.Fun.(type) {
	case *ast.Ident:
		if f.Name == "panic" || f.Name == "ExhaustiveTypeSwitch" {
			return f.Name, true
		}
	case *ast.SelectorExpr:
		if f.Sel.Name == "ExhaustiveTypeSwitch" {
			return c03ExprText(f), true
		}
	}
	return "", false
}

// a clause body "panics" when one of its top-level statements is a panic call (statements before it only compute
// the message, as in nilness.go's `posn := ...; panic(...)`).
func c03BodyPanics(body []ast.Stmt) (string, bool) {
	for _, st := range body {
		if how, ok := c03PanicCall(st); ok {
			return how, true
		}
	}
	return "", false
}

// qualify a case type written inside package pkg: `*Call` -> `*ir.Call`, `*ast.Ident` unchanged, `nil` unchanged.
func c03CaseType(e ast.Expr, pkg string) string {
	star := ""
	if s, ok := e.(*ast.StarExpr); ok {
		star = "*"
		e = s.X
	}
	switch x := e.(type) {
	case *ast.Ident:
		if x.Name == "nil" {
			return "nil"
		}
		if isPredeclared(x.Name) {
			return star + x.Name
		}
		return star + pkg + "." + x.Name
	case *ast.SelectorExpr:
		return star + c03ExprText(x)
	}
	return star + c03ExprText(e)
}

func isPredeclared(n string) bool {
	switch n {
	case "bool", "string", "int", "int8", "int16", "int32", "int64", "uint", "uint8", "uint16", "uint32", "uint64",
		"uintptr", "float32", "float64", "complex64", "complex128", "byte", "rune", "error", "any":
		return true
	}
	return false
}

func c03ScanFile(fset *token.FileSet, f *ast.File, rel string, out *[]c03Switch, filters map[string][]string) {
	pkg := f.Name.Name
	for _, d := range f.Decls {
		fd, ok := d.(*ast.FuncDecl)
		if !ok || fd.Body == nil {
			continue
		}
		fname := fd.Name.Name
		if fd.Recv != nil && len(fd.Recv.List) == 1 {
			if rn := c03BaseName(fd.Recv.List[0].Type); rn != "" {
				fname = rn + "." + fname
			}
		}
		record := func(sw c03Switch) {
			sw.file, sw.fn = rel, fname
			*out = append(*out, sw)
		}
		var visitList func(list []ast.Stmt)
		handle := func(st ast.Stmt, next ast.Stmt) {
			switch s := st.(type) {
			case *ast.TypeSwitchStmt:
				sw := c03Switch{kind: "type", line: fset.Position(s.Pos()).Line}
				switch a := s.Assign.(type) {
				case *ast.AssignStmt:
					sw.tag = c03ExprText(a.Rhs[0])
				case *ast.ExprStmt:
					sw.tag = c03ExprText(a.X)
				}
				hasDefault := false
				for _, c := range s.Body.List {
					cc := c.(*ast.CaseClause)
					if cc.List == nil {
						hasDefault = true
						if how, ok := c03BodyPanics(cc.Body); ok {
							sw.style, sw.how = "default", how
						}
						continue
					}
					for _, e := range cc.List {
						sw.cases = append(sw.cases, c03CaseType(e, pkg))
					}
				}
				if !hasDefault && next != nil {
					if how, ok := c03PanicCall(next); ok {
						sw.style, sw.how = "trailing", how
					}
				}
				if sw.style != "" {
					record(sw)
				}
			case *ast.SwitchStmt:
				if s.Tag == nil {
					return
				}
				sw := c03Switch{kind: "value", line: fset.Position(s.Pos()).Line, tag: c03ExprText(s.Tag)}
				okCases := true
				for _, c := range s.Body.List {
					cc := c.(*ast.CaseClause)
					if cc.List == nil {
						if how, ok := c03BodyPanics(cc.Body); ok {
							sw.style, sw.how = "default", how
						}
						continue
					}
					for _, e := range cc.List {
						switch x := e.(type) {
						case *ast.BasicLit:
							if x.Kind == token.STRING {
								s, err := strconv.Unquote(x.Value)
								if err != nil {
									okCases = false
								}
								sw.cases = append(sw.cases, s)
							} else {
								sw.cases = append(sw.cases, x.Value)
							}
						case *ast.SelectorExpr:
							sw.cases = append(sw.cases, c03ExprText(x))
						case *ast.Ident:
							sw.cases = append(sw.cases, pkg+"."+x.Name)
						default:
							okCases = false
						}
					}
				}
				if sw.style != "" && okCases {
					record(sw)
				}
			}
		}
		visitList = func(list []ast.Stmt) {
			for i, st := range list {
				var next ast.Stmt
				if i+1 < len(list) {
					next = list[i+1]
				}
				if ls, ok := st.(*ast.LabeledStmt); ok {
					st = ls.Stmt
				}
				handle(st, next)
			}
		}
		// pre-order walk that sees statement lists (so "next statement" is known) in source order
		ast.Inspect(fd.Body, func(n ast.Node) bool {
			switch b := n.(type) {
			case *ast.BlockStmt:
				visitList(b.List)
			case *ast.CaseClause:
				visitList(b.Body)
			case *ast.CommClause:
				visitList(b.Body)
			}
			return true
		})
		// inspector node filters used in this function: composite literals []ast.Node{(*ast.X)(nil), ...} and
		// variadic (*ast.X)(nil) arguments of calls named Preorder / WithStack / Nodes / PreorderStack
		var flt []string
		seen := map[string]bool{}
		addNil := func(e ast.Expr) {
			call, ok := e.(*ast.CallExpr)
			if !ok || len(call.Args) != 1 {
				return
			}
			if id, ok := call.Args[0].(*ast.Ident); !ok || id.Name != "nil" {
				return
			}
			p, ok := call.Fun.(*ast.ParenExpr)
			if !ok {
				return
			}
			t := c03CaseType(p.X, pkg)
			if !seen[t] {
				seen[t] = true
				flt = append(flt, t)
			}
		}
		ast.Inspect(fd.Body, func(n ast.Node) bool {
			switch x := n.(type) {
			case *ast.CompositeLit:
				if at, ok := x.Type.(*ast.ArrayType); ok && c03ExprText(at.Elt) == "ast.Node" {
					for _, e := range x.Elts {
						addNil(e)
					}
				}
			case *ast.CallExpr:
				name := ""
				switch f := x.Fun.(type) {
				case *ast.SelectorExpr:
					name = f.Sel.Name
				case *ast.Ident:
					name = f.Name
				}
				if name == "Preorder" || name == "PreorderStack" || name == "WithStack" || name == "Nodes" {
					for _, a := range x.Args {
						addNil(a)
					}
				}
			}
			return true
		})
		if len(flt) > 0 {
			filters[rel+":"+fname] = flt
		}
	}
}

func c03GoRoot(repo string) (string, error) {
	cmd := exec.Command("go", "env", "GOROOT")
	cmd.Dir = repo
	out, err := cmd.Output()
	if err != nil {
		return "", fmt.Errorf("go env GOROOT in %s: %v", repo, err)
	}
	return strings.TrimSpace(string(out)), nil
}

func genC03(repo string) (map[string]string, error) {
	goroot, err := c03GoRoot(repo)
	if err != nil {
		return nil, err
	}
	// ---------------- universes
	irp, err := c03ParseDir(filepath.Join(repo, "go/ir"), "ir")
	if err != nil {
		return nil, err
	}
	astp, err := c03ParseDir(filepath.Join(goroot, "src/go/ast"), "ast")
	if err != nil {
		return nil, err
	}
	typp, err := c03ParseDir(filepath.Join(goroot, "src/go/types"), "types")
	if err != nil {
		return nil, err
	}
	type uni struct {
		name    string
		members []string
	}
	var unis []uni
	for _, u := range []struct {
		p        *c03Pkg
		iface    string
		exported bool
	}{
		{irp, "Instruction", false}, {irp, "Value", false}, {irp, "CallInstruction", false}, {irp, "Node", false},
		{irp, "Member", false}, {irp, "Constant", false},
		{astp, "Expr", false}, {astp, "Stmt", false}, {astp, "Decl", false}, {astp, "Spec", false}, {astp, "Node", false},
		{typp, "Type", true}, {typp, "Object", true},
	} {
		m, err := u.p.implementors(u.iface, u.exported)
		if err != nil {
			return nil, err
		}
		unis = append(unis, uni{u.p.name + "." + u.iface, m})
	}

	// types.Type is also implemented by two synthetic types of /repo/go/types/typeutil (types of go/ir's defer-stack
	// and range iterator values): add every type there that has both methods of types.Type
	tup, err := c03ParseDir(filepath.Join(repo, "go/types/typeutil"), "typeutil")
	if err != nil {
		return nil, err
	}
	for i := range unis {
		if unis[i].name != "types.Type" {
			continue
		}
		var extra []string
		for n, t := range tup.types {
			if t.isIface || !t.declared {
				continue
			}
			ms := tup.methodSet(n, map[string]bool{})
			if _, ok := ms["Underlying"]; !ok {
				continue
			}
			if _, ok := ms["String"]; !ok {
				continue
			}
			extra = append(extra, "*typeutil."+n)
		}
		sort.Strings(extra)
		unis[i].members = append(unis[i].members, extra...)
	}

	// builtin names as go/ir spells them
	fsetU := token.NewFileSet()
	uf, err := parser.ParseFile(fsetU, filepath.Join(goroot, "src/go/types/universe.go"), nil, 0)
	if err != nil {
		return nil, err
	}
	var builtins []string // "name|kind" with kind expression/statement
	ast.Inspect(uf, func(n ast.Node) bool {
		vs, ok := n.(*ast.ValueSpec)
		if !ok || len(vs.Names) != 1 || vs.Names[0].Name != "predeclaredFuncs" || len(vs.Values) != 1 {
			return true
		}
		cl, ok := vs.Values[0].(*ast.CompositeLit)
		if !ok {
			return true
		}
		for _, e := range cl.Elts {
			kv, ok := e.(*ast.KeyValueExpr)
			if !ok {
				continue
			}
			row, ok := kv.Value.(*ast.CompositeLit)
			if !ok || len(row.Elts) != 4 {
				continue
			}
			lit, ok := row.Elts[0].(*ast.BasicLit)
			if !ok {
				continue
			}
			name, _ := strconv.Unquote(lit.Value)
			kind := c03ExprText(row.Elts[3])
			builtins = append(builtins, name+"|"+kind)
		}
		return false
	})
	if len(builtins) < 20 {
		return nil, fmt.Errorf("go/types/universe.go: predeclaredFuncs table not recognised (%d rows)", len(builtins))
	}
	// go/ir: how unsafe builtins are spelled, synthetic builtins, and which builtins builder.builtin lowers itself
	irFset := token.NewFileSet()
	var synth []string
	unsafePrefix := ""
	var lowered []string
	constructed := map[string]bool{} // go/ir types built by a composite literal or new(T) in non-test go/ir sources
	var cmpTokens []string           // tokens of the BinaryExpr clause of builder.expr0 that calls emitCompare(fn, e.Op, ...)
	irFiles, _ := filepath.Glob(filepath.Join(repo, "go/ir/*.go"))
	sort.Strings(irFiles)
	for _, fn := range irFiles {
		if strings.HasSuffix(fn, "_test.go") || strings.HasPrefix(filepath.Base(fn), "verif_") {
			continue
		}
		f, err := parser.ParseFile(irFset, fn, nil, 0)
		if err != nil {
			return nil, err
		}
		ast.Inspect(f, func(n ast.Node) bool {
			switch x := n.(type) {
			case *ast.CompositeLit:
				if id, ok := x.Type.(*ast.Ident); ok {
					constructed[id.Name] = true
				}
			case *ast.CallExpr:
				if id, ok := x.Fun.(*ast.Ident); ok && id.Name == "new" && len(x.Args) == 1 {
					if t, ok := x.Args[0].(*ast.Ident); ok {
						constructed[t.Name] = true
					}
				}
			case *ast.ValueSpec:
				// `var v Call` followed by fn.emit(&v): a declared variable of the type is a construction as well
				if id, ok := x.Type.(*ast.Ident); ok {
					constructed[id.Name] = true
				}
			}
			return true
		})
		if fd := findMethod(f, "builder", "expr0"); fd != nil {
			ast.Inspect(fd.Body, func(n ast.Node) bool {
				cc, ok := n.(*ast.CaseClause)
				if !ok || len(cc.List) == 0 {
					return true
				}
				uses := false
				for _, st := range cc.Body {
					ast.Inspect(st, func(m ast.Node) bool {
						if _, ok := m.(*ast.CaseClause); ok {
							return false // nested switches are looked at on their own
						}
						if call, ok := m.(*ast.CallExpr); ok {
							if id, ok := call.Fun.(*ast.Ident); ok && id.Name == "emitCompare" && len(call.Args) >= 2 && c03ExprText(call.Args[1]) == "e.Op" {
								uses = true
							}
						}
						return true
					})
				}
				if uses {
					for _, e := range cc.List {
						if t := c03ExprText(e); strings.HasPrefix(t, "token.") {
							cmpTokens = append(cmpTokens, t)
						}
					}
				}
				return true
			})
		}
		ast.Inspect(f, func(n ast.Node) bool {
			cl, ok := n.(*ast.CompositeLit)
			if !ok {
				return true
			}
			if id, ok := cl.Type.(*ast.Ident); !ok || id.Name != "Builtin" {
				return true
			}
			for _, e := range cl.Elts {
				kv, ok := e.(*ast.KeyValueExpr)
				if !ok {
					continue
				}
				if k, ok := kv.Key.(*ast.Ident); !ok || k.Name != "name" {
					continue
				}
				switch v := kv.Value.(type) {
				case *ast.BasicLit:
					s, _ := strconv.Unquote(v.Value)
					synth = append(synth, s)
				case *ast.BinaryExpr:
					if l, ok := v.X.(*ast.BasicLit); ok && v.Op == token.ADD {
						unsafePrefix, _ = strconv.Unquote(l.Value)
					}
				}
			}
			return true
		})
		if fd := findMethod(f, "builder", "builtin"); fd != nil {
			for _, st := range fd.Body.List {
				sw, ok := st.(*ast.SwitchStmt)
				if !ok {
					continue
				}
				for _, c := range sw.Body.List {
					for _, e := range c.(*ast.CaseClause).List {
						if l, ok := e.(*ast.BasicLit); ok {
							s, _ := strconv.Unquote(l.Value)
							lowered = append(lowered, s)
						}
					}
				}
			}
		}
	}
	if len(cmpTokens) == 0 {
		return nil, fmt.Errorf("go/ir/builder.go: the BinaryExpr clause of builder.expr0 calling emitCompare(fn, e.Op, ...) was not found")
	}
	unis = append(unis, uni{"token.compare", cmpTokens})
	// go/parser: the tokens for which parseDecl builds a GenDecl
	pf, err := parser.ParseFile(token.NewFileSet(), filepath.Join(goroot, "src/go/parser/parser.go"), nil, parser.SkipObjectResolution)
	if err != nil {
		return nil, err
	}
	var gdTokens []string
	if fd := findMethod(pf, "parser", "parseDecl"); fd != nil {
		for _, st := range fd.Body.List {
			sw, ok := st.(*ast.SwitchStmt)
			if !ok || c03ExprText(sw.Tag) != "p.tok" {
				continue
			}
			for _, c := range sw.Body.List {
				cc := c.(*ast.CaseClause)
				if len(cc.Body) == 1 {
					if as, ok := cc.Body[0].(*ast.AssignStmt); ok && len(as.Lhs) == 1 && c03ExprText(as.Lhs[0]) == "f" {
						for _, e := range cc.List {
							gdTokens = append(gdTokens, c03ExprText(e))
						}
					}
				}
			}
		}
	}
	if len(gdTokens) == 0 {
		return nil, fmt.Errorf("go/parser: parseDecl's token switch not recognised")
	}
	unis = append(unis, uni{"token.gendecl", gdTokens})
	if unsafePrefix == "" {
		return nil, fmt.Errorf("go/ir: the `&Builtin{name: \"Unsafe\" + obj.Name()}` literal was not found")
	}
	if len(lowered) == 0 {
		return nil, fmt.Errorf("go/ir/builder.go: builder.builtin's name switch not found")
	}
	sort.Strings(synth)
	var bnames []string // (ir name, source name, kind)
	for _, b := range builtins {
		parts := strings.SplitN(b, "|", 2)
		irname := parts[0]
		src := parts[0]
		if ast.IsExported(parts[0]) {
			irname = unsafePrefix + parts[0]
			src = "unsafe." + parts[0]
		}
		bnames = append(bnames, fmt.Sprintf("(%s, %s, %s)", coqString(irname), coqString(src), coqString(parts[1])))
	}
	seenS := map[string]bool{}
	for _, s := range synth {
		if seenS[s] {
			continue
		}
		seenS[s] = true
		known := false
		for _, b := range builtins {
			if strings.HasPrefix(b, s+"|") {
				known = true
			}
		}
		if !known {
			bnames = append(bnames, fmt.Sprintf("(%s, %s, %s)", coqString(s), coqString("go/ir synthetic"), coqString("synthetic")))
		}
	}

	// ---------------- switches
	var sws []c03Switch
	filters := map[string][]string{}
	fset := token.NewFileSet()
	err = filepath.Walk(repo, func(path string, info os.FileInfo, err error) error {
		if err != nil {
			return nil
		}
		rel, _ := filepath.Rel(repo, path)
		if info.IsDir() {
			b := filepath.Base(path)
			if b == "testdata" || (strings.HasPrefix(b, ".") && path != repo) || b == "_benchmarks" || rel == "website" || rel == "verifhooks" {
				return filepath.SkipDir
			}
			return nil
		}
		if !strings.HasSuffix(path, ".go") || strings.HasSuffix(path, "_test.go") || strings.HasPrefix(filepath.Base(path), "verif_") {
			return nil
		}
		f, err := parser.ParseFile(fset, path, nil, parser.SkipObjectResolution)
		if err != nil {
			return fmt.Errorf("%s: %v", rel, err)
		}
		c03ScanFile(fset, f, filepath.ToSlash(rel), &sws, filters)
		return nil
	})
	if err != nil {
		return nil, err
	}
	sort.SliceStable(sws, func(i, j int) bool {
		if sws[i].file != sws[j].file {
			return sws[i].file < sws[j].file
		}
		return sws[i].line < sws[j].line
	})

	// identity of a switch: file:function:tag text (+ #k for the k-th further switch with the same tag in that function)
	seenID := map[string]int{}
	for i := range sws {
		k := sws[i].file + ":" + sws[i].fn + ":" + sws[i].tag
		sws[i].ord = seenID[k]
		seenID[k]++
	}

	var b strings.Builder
	b.WriteString("From Coq Require Import List String.\nImport ListNotations.\nOpen Scope string_scope.\nRequire Import Verif.Model.C03_Types.\n\n")
	fmt.Fprintf(&b, "(* GOROOT used: %s *)\n", goroot)
	b.WriteString("(* interface -> implementors (method-name inclusion over the parsed package sources) *)\n")
	b.WriteString("Definition gen_universes : list (string * list string) :=\n  [\n")
	for i, u := range unis {
		var ms []string
		for _, m := range u.members {
			ms = append(ms, coqString(m))
		}
		sep := ";"
		if i == len(unis)-1 {
			sep = ""
		}
		fmt.Fprintf(&b, "   (%s, %s)%s\n", coqString(u.name), coqList(ms), sep)
	}
	b.WriteString("  ].\n\n")
	b.WriteString("(* (name of the *ir.Builtin, source spelling, go/types exprKind) for every row of go/types.predeclaredFuncs and every synthetic go/ir builtin *)\n")
	fmt.Fprintf(&b, "Definition gen_builtins : list (string * string * string) :=\n  %s.\n\n", coqList(bnames))
	var lw []string
	for _, l := range lowered {
		lw = append(lw, coqString(l))
	}
	b.WriteString("(* case names of the switch in go/ir/builder.go:builder.builtin (calls the builder lowers itself) *)\n")
	fmt.Fprintf(&b, "Definition gen_builder_builtin_cases : list string := %s.\n\n", coqList(lw))

	var cons []string
	isNode := map[string]bool{}
	for _, u := range unis {
		if u.name == "ir.Node" {
			for _, m := range u.members {
				isNode[m] = true
			}
		}
	}
	for n := range constructed {
		if isNode["*ir."+n] {
			cons = append(cons, coqString("*ir."+n))
		}
	}
	sort.Strings(cons)
	b.WriteString("(* go/ir types that non-test go/ir sources construct (composite literal, new(T) or a declared variable of type T) *)\n")
	fmt.Fprintf(&b, "Definition gen_ir_constructed : list string := %s.\n\n", coqList(cons))
	b.WriteString("(* every panicking switch found: mkSwitch id file func ordinal line kind style tag cases how *)\n")
	b.WriteString("Definition gen_switches : list switch :=\n  [\n")
	for i, s := range sws {
		var cs []string
		for _, c := range s.cases {
			cs = append(cs, coqString(c))
		}
		sep := ";"
		if i == len(sws)-1 {
			sep = ""
		}
		id := fmt.Sprintf("%s:%s:%s", s.file, s.fn, s.tag)
		if s.ord > 0 {
			id += fmt.Sprintf("#%d", s.ord)
		}
		kind := "KType"
		if s.kind == "value" {
			kind = "KValue"
		}
		style := "SDefault"
		if s.style == "trailing" {
			style = "STrailing"
		}
		fmt.Fprintf(&b, "   mkSwitch %s %s %s %s %s\n     %s %s%s\n", coqString(id), coqString(strconv.Itoa(s.line)), kind, style, coqString(s.tag), coqList(cs), coqString(s.how), sep)
	}
	b.WriteString("  ].\n\n")
	b.WriteString("(* node-type filters handed to an AST inspector, per function *)\n")
	var fk []string
	for k := range filters {
		fk = append(fk, k)
	}
	sort.Strings(fk)
	b.WriteString("Definition gen_filters : list (string * list string) :=\n  [\n")
	for i, k := range fk {
		var cs []string
		for _, c := range filters[k] {
			cs = append(cs, coqString(c))
		}
		sep := ";"
		if i == len(fk)-1 {
			sep = ""
		}
		fmt.Fprintf(&b, "   (%s, %s)%s\n", coqString(k), coqList(cs), sep)
	}
	b.WriteString("  ].\n")
	return map[string]string{"C03_Switches.v": b.String()}, nil
}
