package main

import (
	"bytes"
	"fmt"
	"go/ast"
	"go/printer"
	"go/token"
	"strings"
)

// C17: lintcmd/lint.go
//   - the fields of `type unusedKey struct`
//   - every composite literal `unusedKey{...}` inside (*linter).lint: field -> source text of the value
//   - the shape of the merge: the statements `used[key] = true`, `if _, ok := used[key]; !ok { used[key] = false }`,
//     the guard `allowedAnalyzers[...("U1000")]` around the Unused loop and `if used[uo.key] { continue }` in the emit loop.
//
// unused/unused.go
//   - Results(): the order of the three tests (seen -> Used, quiet -> Quiet, else Unused) and the range g.nodes[1:]
//   - color(): returns when seen, marks seen, recurses over root.uses
func init() { register("C17", genC17) }

func exprText(fset *token.FileSet, n ast.Node) string {
	var b bytes.Buffer
	printer.Fprint(&b, fset, n)
	return strings.Join(strings.Fields(b.String()), " ")
}

func genC17(repo string) (map[string]string, error) {
	fset, f, err := parseFile(repo, "lintcmd/lint.go")
	if err != nil {
		return nil, err
	}
	// --- unusedKey fields
	var fields []string
	for _, d := range f.Decls {
		gd, ok := d.(*ast.GenDecl)
		if !ok || gd.Tok != token.TYPE {
			continue
		}
		for _, s := range gd.Specs {
			ts := s.(*ast.TypeSpec)
			if ts.Name.Name != "unusedKey" {
				continue
			}
			st, ok := ts.Type.(*ast.StructType)
			if !ok {
				return nil, fmt.Errorf("unusedKey is not a struct")
			}
			for _, fl := range st.Fields.List {
				for _, n := range fl.Names {
					fields = append(fields, n.Name+" "+exprText(fset, fl.Type))
				}
			}
		}
	}
	if len(fields) == 0 {
		return nil, fmt.Errorf("type unusedKey not found in lintcmd/lint.go")
	}
	lint := findMethod(f, "linter", "lint")
	if lint == nil {
		return nil, fmt.Errorf("(*linter).lint not found")
	}
	// --- key literals: every unusedKey{...} literal of the file (wherever a refactoring may have moved it), with the
	// function it occurs in; and the source text of the package component of each
	var lits, pkgComponent []string
	curFunc := ""
	for _, d := range f.Decls {
		if fd, ok := d.(*ast.FuncDecl); ok {
			curFunc = fd.Name.Name
		} else {
			curFunc = ""
		}
		ast.Inspect(d, func(n ast.Node) bool {
			cl, ok := n.(*ast.CompositeLit)
			if !ok {
				return true
			}
			if id, ok := cl.Type.(*ast.Ident); !ok || id.Name != "unusedKey" {
				return true
			}
			var kvs []string
			for _, e := range cl.Elts {
				kv, ok := e.(*ast.KeyValueExpr)
				if !ok {
					kvs = append(kvs, "?"+exprText(fset, e))
					continue
				}
				kvs = append(kvs, exprText(fset, kv.Key)+" := "+exprText(fset, kv.Value))
				if exprText(fset, kv.Key) == "pkgPath" {
					pkgComponent = append(pkgComponent, exprText(fset, kv.Value))
				}
			}
			lits = append(lits, "in "+curFunc+": "+strings.Join(kvs, "; "))
			return true
		})
	}
	// --- merge shape: collect the statements that touch `used` in order
	var shape []string
	ast.Inspect(lint.Body, func(n ast.Node) bool {
		switch n := n.(type) {
		case *ast.AssignStmt:
			if len(n.Lhs) == 1 {
				if ix, ok := n.Lhs[0].(*ast.IndexExpr); ok {
					if id, ok := ix.X.(*ast.Ident); ok && id.Name == "used" {
						shape = append(shape, "set "+exprText(fset, n))
					}
				}
			}
			for _, r := range n.Rhs {
				if call, ok := r.(*ast.CallExpr); ok {
					if id, ok := call.Fun.(*ast.Ident); ok && id.Name == "append" && len(call.Args) > 0 {
						if a, ok := call.Args[0].(*ast.Ident); ok && a.Name == "unuseds" {
							shape = append(shape, "append "+exprText(fset, n))
						}
					}
				}
			}
		case *ast.IfStmt:
			c := exprText(fset, n.Cond)
			if strings.Contains(c, "used[") || strings.Contains(c, `"U1000"`) || (n.Init != nil && strings.Contains(exprText(fset, n.Init), "used[")) {
				init := ""
				if n.Init != nil {
					init = exprText(fset, n.Init) + "; "
				}
				body := ""
				if len(n.Body.List) == 1 {
					if _, ok := n.Body.List[0].(*ast.BranchStmt); ok {
						body = " " + exprText(fset, n.Body.List[0])
					}
				}
				els := ""
				if n.Else != nil {
					els = " else"
				}
				shape = append(shape, "if "+init+c+body+els)
			}
		case *ast.RangeStmt:
			x := exprText(fset, n.X)
			if strings.Contains(x, "Unused.") || x == "unuseds" {
				shape = append(shape, "range "+x)
			}
		}
		return true
	})

	// --- unused.go: Results and color
	fset2, f2, err := parseFile(repo, "unused/unused.go")
	if err != nil {
		return nil, err
	}
	var ushape []string
	res := findMethod(f2, "SerializedGraph", "Results")
	col := findMethod(f2, "SerializedGraph", "color")
	caq := findMethod(f2, "SerializedGraph", "colorAndQuieten")
	if res == nil || col == nil || caq == nil {
		return nil, fmt.Errorf("SerializedGraph.Results/color/colorAndQuieten not found")
	}
	for _, fd := range []*ast.FuncDecl{col, caq, res} {
		ushape = append(ushape, "func "+fd.Name.Name)
		ast.Inspect(fd.Body, func(n ast.Node) bool {
			switch n := n.(type) {
			case *ast.RangeStmt:
				ushape = append(ushape, "range "+exprText(fset2, n.X))
			case *ast.IfStmt:
				els := ""
				if n.Else != nil {
					els = " else"
				}
				ushape = append(ushape, "if "+exprText(fset2, n.Cond)+els)
			case *ast.AssignStmt:
				ushape = append(ushape, "assign "+exprText(fset2, n))
			case *ast.ExprStmt:
				ushape = append(ushape, "call "+exprText(fset2, n.X))
			case *ast.ReturnStmt, *ast.BranchStmt:
				ushape = append(ushape, exprText(fset2, n))
			}
			return true
		})
	}

	var b strings.Builder
	b.WriteString("From Coq Require Import String List.\nImport ListNotations.\nLocal Open Scope string_scope.\n\n")
	q := func(l []string) string {
		var qs []string
		for _, s := range l {
			qs = append(qs, coqString(s))
		}
		return "[" + strings.Join(qs, ";\n   ") + "]"
	}
	b.WriteString("(* lintcmd/lint.go: type unusedKey struct *)\nDefinition gen_key_fields : list string :=\n  " + q(fields) + ".\n\n")
	b.WriteString("(* lintcmd/lint.go: every unusedKey{...} literal *)\nDefinition gen_key_literals : list string :=\n  " + q(lits) + ".\n\n")
	b.WriteString("(* the package component of every key literal: it must be the package PATH, otherwise objects of different packages\n   that share name, file base name and line collide (key_collision_only_suppresses then drops reports) *)\nDefinition gen_key_pkg_component : list string :=\n  " + q(pkgComponent) + ".\n\n")
	b.WriteString("(* lintcmd/lint.go:lint: statements that read or write the used map / unuseds list, in source order *)\nDefinition gen_merge_shape : list string :=\n  " + q(shape) + ".\n\n")
	b.WriteString("(* unused/unused.go: color, colorAndQuieten, Results: statements in source order *)\nDefinition gen_color_shape : list string :=\n  " + q(ushape) + ".\n")
	return map[string]string{"C17_LintShape.v": b.String()}, nil
}
