package main

import (
	"fmt"
	"go/ast"
	"go/token"
	"strings"
)

// C15: staticcheck/sa4023/sa4023.go — the condition under which a comparison `f() == nil` is flagged:
// the first conjunct of the reporting `if` must be `nillity.Outer == nilness.<Const>` with
// `nillity := nilnessRes.Nilness(obj, idx)`. Emits coq/Gen/C15_SA4023.v naming that constant.
// Also re-reads normalize() of analysis/facts/nilness/nilness.go (zero components become MaybeNil; Inner is
// MaybeNil for non-interfaces).
func init() { register("C15", genC15) }

func genC15(repo string) (map[string]string, error) {
	_, f, err := parseFile(repo, "staticcheck/sa4023/sa4023.go")
	if err != nil {
		return nil, err
	}
	run := findFunc(f, "run")
	if run == nil {
		return nil, fmt.Errorf("sa4023: run not found")
	}
	var cname string
	nilAssign := false
	reports := 0
	ast.Inspect(run.Body, func(n ast.Node) bool {
		switch n := n.(type) {
		case *ast.AssignStmt:
			if len(n.Lhs) == 1 && len(n.Rhs) == 1 {
				if id, ok := n.Lhs[0].(*ast.Ident); ok && id.Name == "nillity" {
					if c13NodeString(n.Rhs[0]) == "nilnessRes.Nilness(obj, idx)" {
						nilAssign = true
					}
				}
			}
		case *ast.IfStmt:
			// find the leftmost conjunct
			e := n.Cond
			for {
				be, ok := e.(*ast.BinaryExpr)
				if !ok || be.Op != token.LAND {
					break
				}
				e = be.X
			}
			be, ok := e.(*ast.BinaryExpr)
			if !ok || be.Op != token.EQL || c13NodeString(be.X) != "nillity.Outer" {
				return true
			}
			sel, ok := be.Y.(*ast.SelectorExpr)
			if !ok || c13NodeString(sel.X) != "nilness" {
				return true
			}
			cname = sel.Sel.Name
			reports++
		}
		return true
	})
	if !nilAssign || reports != 1 || cname == "" {
		return nil, fmt.Errorf("sa4023: guard `nillity.Outer == nilness.X` on `nilnessRes.Nilness(obj, idx)` not recognised")
	}
	// every report.Report call using nillity must be inside that if: count uses of nillity
	uses := 0
	ast.Inspect(run.Body, func(n ast.Node) bool {
		if id, ok := n.(*ast.Ident); ok && id.Name == "nillity" {
			uses++
		}
		return true
	})
	if uses != 2 {
		return nil, fmt.Errorf("sa4023: nillity is used %d times (expected: its definition and the guard)", uses)
	}

	_, nf, err := parseFile(repo, "analysis/facts/nilness/nilness.go")
	if err != nil {
		return nil, err
	}
	norm := findFunc(nf, "normalize")
	if norm == nil {
		return nil, fmt.Errorf("normalize not found")
	}
	got := strings.Join(strings.Fields(c13NodeString(norm.Body)), " ")
	want := "{ if v.Inner == 0 || !types.IsInterface(typ) { v.Inner = MaybeNil } if v.Outer == 0 { v.Outer = MaybeNil } return v }"
	if got != want {
		return nil, fmt.Errorf("normalize has unrecognised body: %s", got)
	}

	var b strings.Builder
	b.WriteString("Require Import Verif.Model.C13_Nilness.\n\n")
	b.WriteString("(* staticcheck/sa4023/sa4023.go: a comparison with nil is flagged only if Result.Nilness(obj, idx).Outer equals: *)\n")
	fmt.Fprintf(&b, "Definition gen_sa4023_outer : nilness := %s.\n", cname)
	return map[string]string{"C15_SA4023.v": b.String()}, nil
}
