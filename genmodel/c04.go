package main

import (
	"bytes"
	"fmt"
	"go/ast"
	"go/build/constraint"
	"go/parser"
	"go/printer"
	"go/token"
	"os"
	"path/filepath"
	"sort"
	"strconv"
	"strings"
)

// C04: the cache key, transcribed.
//
//	lintcmd/runner/runner.go  subrunner.do   ordered fmt.Fprintf(h, ...) components written into the action hash
//	                                         (with the control context they sit in), the assignments that define
//	                                         the hashed locals (hashCfg := a.cfg; hashCfg.Checks = nil; ...),
//	                                         the sub-keys looked up / stored and the fields of the stored record
//	go/loader/hash.go         computeHash    the same for the package hash
//	go/loader/loader.go       Graph          spec.Hash = computeHash(spec); spec.Config = config.Load(...)
//	lintcmd/cache/hash.go     NewHash        whether the salt is written into every hash
//	lintcmd/lint.go           newLinter      cache.SetSalt(<x>) and where <x> comes from
//	config/config.go          Config         the field list of the configuration struct (what `cfg %#v` prints)
//	every non-test file of the packages cmd/staticcheck (transitively) imports inside the module:
//	                                         calls of os.Getenv / os.LookupEnv / os.Environ / os.ExpandEnv /
//	                                         os.UserCacheDir / os.UserHomeDir / os.UserConfigDir / os.Executable /
//	                                         os.Getwd / os.Hostname / os.TempDir / syscall.Getenv
func init() { register("C04", genC04) }

type c04Comp struct {
	format string
	args   []string
	ctx    []string
}

func c04Render(fset *token.FileSet, n ast.Node) string {
	var b bytes.Buffer
	printer.Fprint(&b, fset, n)
	s := b.String()
	s = strings.Join(strings.Fields(s), " ")
	return s
}

func c04IsCall(e ast.Expr, pkg, fn string) (*ast.CallExpr, bool) {
	call, ok := e.(*ast.CallExpr)
	if !ok {
		return nil, false
	}
	sel, ok := call.Fun.(*ast.SelectorExpr)
	if !ok || sel.Sel.Name != fn {
		return nil, false
	}
	id, ok := sel.X.(*ast.Ident)
	if !ok || id.Name != pkg {
		return nil, false
	}
	return call, true
}

// c04Walk visits the statements of a function body in source order, keeping the rendered control context.
type c04Walker struct {
	fset    *token.FileSet
	hashVar string // identifier of the *cache.Hash being filled
	comps   []c04Comp
	defs    [][2]string // lhs, rhs of assignments (all, in order)
	sumSeen bool
	after   []ast.Stmt // statements after the Sum (top level)
	err     error
}

func (w *c04Walker) stmts(list []ast.Stmt, ctx []string, top bool) {
	for i, st := range list {
		if w.sumSeen && top {
			w.after = append(w.after, list[i:]...)
			return
		}
		w.stmt(st, ctx)
	}
}

func (w *c04Walker) exprCalls(n ast.Node, ctx []string) {
	// fmt.Fprintf(h, ...) anywhere inside an expression statement / assignment
	ast.Inspect(n, func(n ast.Node) bool {
		if _, ok := n.(*ast.FuncLit); ok {
			return false
		}
		e, ok := n.(ast.Expr)
		if !ok {
			return true
		}
		if call, ok := c04IsCall(e, "fmt", "Fprintf"); ok && len(call.Args) >= 2 {
			if id, ok := call.Args[0].(*ast.Ident); ok && id.Name == w.hashVar && w.hashVar != "" {
				lit, ok := call.Args[1].(*ast.BasicLit)
				if !ok || lit.Kind != token.STRING {
					w.err = fmt.Errorf("Fprintf into the hash with a non-literal format at %s", w.fset.Position(call.Pos()))
					return false
				}
				f, _ := strconv.Unquote(lit.Value)
				c := c04Comp{format: f, ctx: append([]string(nil), ctx...)}
				for _, a := range call.Args[2:] {
					c.args = append(c.args, c04Render(w.fset, a))
				}
				w.comps = append(w.comps, c)
			}
		}
		// any other way of writing into the hash is not understood
		if call, ok := e.(*ast.CallExpr); ok {
			if sel, ok := call.Fun.(*ast.SelectorExpr); ok {
				if id, ok := sel.X.(*ast.Ident); ok && id.Name == w.hashVar && w.hashVar != "" {
					switch sel.Sel.Name {
					case "Sum":
						w.sumSeen = true
					case "Write":
						w.err = fmt.Errorf("direct %s.Write at %s: shape not recognised", w.hashVar, w.fset.Position(call.Pos()))
					}
				}
			}
		}
		return true
	})
}

func (w *c04Walker) stmt(st ast.Stmt, ctx []string) {
	if w.err != nil {
		return
	}
	switch st := st.(type) {
	case *ast.AssignStmt:
		lhs := make([]string, len(st.Lhs))
		for i, l := range st.Lhs {
			lhs[i] = c04Render(w.fset, l)
		}
		rhs := make([]string, len(st.Rhs))
		for i, r := range st.Rhs {
			rhs[i] = c04Render(w.fset, r)
		}
		if len(st.Rhs) == 1 {
			if call, ok := c04IsCall(st.Rhs[0], "cache", "NewHash"); ok && len(st.Lhs) == 1 {
				if id, ok := st.Lhs[0].(*ast.Ident); ok && w.hashVar == "" {
					w.hashVar = id.Name
					_ = call
				}
			}
		}
		if len(lhs) == len(rhs) {
			for i := range lhs {
				w.defs = append(w.defs, [2]string{lhs[i], rhs[i]})
			}
		} else {
			// multi-value: first lhs gets the call
			w.defs = append(w.defs, [2]string{lhs[0], strings.Join(rhs, ", ")})
		}
		w.exprCalls(st, ctx)
	case *ast.ExprStmt:
		w.exprCalls(st, ctx)
	case *ast.DeclStmt, *ast.DeferStmt, *ast.ReturnStmt, *ast.IncDecStmt, *ast.BranchStmt, *ast.EmptyStmt:
		w.exprCalls(st, ctx)
	case *ast.IfStmt:
		c := ctx
		if st.Init != nil {
			w.stmt(st.Init, ctx)
		}
		cond := "if " + c04Render(w.fset, st.Cond)
		w.stmts(st.Body.List, append(append([]string(nil), c...), cond), false)
		if st.Else != nil {
			ec := append(append([]string(nil), c...), "else-of "+cond)
			switch e := st.Else.(type) {
			case *ast.BlockStmt:
				w.stmts(e.List, ec, false)
			default:
				w.stmt(e, ec)
			}
		}
	case *ast.RangeStmt:
		w.stmts(st.Body.List, append(append([]string(nil), ctx...), "for range "+c04Render(w.fset, st.X)), false)
	case *ast.ForStmt:
		w.stmts(st.Body.List, append(append([]string(nil), ctx...), "for"), false)
	case *ast.BlockStmt:
		w.stmts(st.List, ctx, false)
	case *ast.SwitchStmt, *ast.TypeSwitchStmt, *ast.SelectStmt, *ast.GoStmt, *ast.LabeledStmt:
		// a hash write inside one of these is not a shape we transcribe
		before := len(w.comps)
		w.exprCalls(st, ctx)
		if len(w.comps) != before {
			w.err = fmt.Errorf("hash component inside unsupported statement at %s", w.fset.Position(st.Pos()))
		}
	default:
		w.exprCalls(st, ctx)
	}
}

func c04Comps(cs []c04Comp) string {
	var items []string
	for _, c := range cs {
		var args, ctx []string
		for _, a := range c.args {
			args = append(args, coqString(a))
		}
		for _, a := range c.ctx {
			ctx = append(ctx, coqString(a))
		}
		items = append(items, fmt.Sprintf("mkComp %s %s %s", coqString(strings.ReplaceAll(c.format, "\n", "\\n")), coqList(args), coqList(ctx)))
	}
	return "[" + strings.Join(items, ";\n   ") + "]"
}

func c04Pairs(ps [][2]string) string {
	var items []string
	for _, p := range ps {
		items = append(items, fmt.Sprintf("(%s, %s)", coqString(p[0]), coqString(p[1])))
	}
	return "[" + strings.Join(items, ";\n   ") + "]"
}

// c04Closure returns the directories (relative to repo) of the module's packages reachable from start by imports
// of non-test files (build constraints ignored: every non-test file counts).
func c04Closure(repo, modpath string, start []string) ([]string, error) {
	seen := map[string]bool{}
	var order []string
	var visit func(rel string) error
	visit = func(rel string) error {
		if seen[rel] {
			return nil
		}
		seen[rel] = true
		order = append(order, rel)
		ents, err := os.ReadDir(filepath.Join(repo, rel))
		if err != nil {
			return err
		}
		for _, e := range ents {
			n := e.Name()
			if e.IsDir() || !strings.HasSuffix(n, ".go") || strings.HasSuffix(n, "_test.go") {
				continue
			}
			fset := token.NewFileSet()
			f, err := parser.ParseFile(fset, filepath.Join(repo, rel, n), nil, parser.ImportsOnly)
			if err != nil {
				return err
			}
			for _, im := range f.Imports {
				p, _ := strconv.Unquote(im.Path.Value)
				if p == modpath {
					if err := visit("."); err != nil {
						return err
					}
				} else if strings.HasPrefix(p, modpath+"/") {
					if err := visit(strings.TrimPrefix(p, modpath+"/")); err != nil {
						return err
					}
				}
			}
		}
		return nil
	}
	for _, s := range start {
		if err := visit(s); err != nil {
			return nil, err
		}
	}
	sort.Strings(order)
	return order, nil
}

// c04VerifOnly reports whether the file's //go:build constraint is false without the "verif" tag
// (all other tags taken as satisfied).
func c04VerifOnly(f *ast.File) bool {
	for _, cg := range f.Comments {
		if cg.Pos() > f.Package {
			break
		}
		for _, c := range cg.List {
			if constraint.IsGoBuild(c.Text) {
				x, err := constraint.Parse(c.Text)
				if err != nil {
					return false
				}
				return !x.Eval(func(tag string) bool { return tag != "verif" })
			}
		}
	}
	return false
}

var c04EnvFuncs = map[string]map[string]bool{
	"os":      {"Getenv": true, "LookupEnv": true, "Environ": true, "ExpandEnv": true, "UserCacheDir": true, "UserHomeDir": true, "UserConfigDir": true, "Executable": true, "Getwd": true, "Hostname": true, "TempDir": true},
	"syscall": {"Getenv": true, "Environ": true},
}

func genC04(repo string) (map[string]string, error) {
	var b strings.Builder
	b.WriteString("From Coq Require Import List String.\nImport ListNotations.\nOpen Scope string_scope.\nRequire Import Verif.Model.C04_Types.\n\n")

	// ---- subrunner.do
	fset, f, err := parseFile(repo, "lintcmd/runner/runner.go")
	if err != nil {
		return nil, err
	}
	do := findMethod(f, "subrunner", "do")
	if do == nil {
		return nil, fmt.Errorf("subrunner.do not found")
	}
	w := &c04Walker{fset: fset}
	w.stmts(do.Body.List, nil, true)
	if w.err != nil {
		return nil, w.err
	}
	if w.hashVar == "" || !w.sumSeen {
		return nil, fmt.Errorf("subrunner.do: cache.NewHash / Sum not found")
	}
	// everything after the Sum: sub-keys, stores, stored record
	var subkeys, stores [][2]string
	var stored [][2]string
	for _, st := range w.after {
		ast.Inspect(st, func(n ast.Node) bool {
			switch n := n.(type) {
			case *ast.CallExpr:
				if call, ok := c04IsCall(n, "cache", "Subkey"); ok && len(call.Args) == 2 {
					subkeys = append(subkeys, [2]string{c04Render(fset, call.Args[0]), c04Render(fset, call.Args[1])})
				}
				if sel, ok := n.Fun.(*ast.SelectorExpr); ok && (sel.Sel.Name == "writeCacheGob" || sel.Sel.Name == "writeCacheReader") && len(n.Args) == 3 {
					stores = append(stores, [2]string{c04Render(fset, n.Args[1]), c04Render(fset, n.Args[2])})
				}
				if call, ok := c04IsCall(n, "fmt", "Fprintf"); ok && len(call.Args) > 0 {
					if id, ok := call.Args[0].(*ast.Ident); ok && id.Name == w.hashVar {
						w.err = fmt.Errorf("hash component written after Sum at %s", fset.Position(n.Pos()))
					}
				}
			case *ast.AssignStmt:
				for i, l := range n.Lhs {
					if sel, ok := l.(*ast.SelectorExpr); ok && i < len(n.Rhs) {
						if id, ok := sel.X.(*ast.Ident); ok && id.Name == "out" {
							stored = append(stored, [2]string{"out." + sel.Sel.Name, c04Render(fset, n.Rhs[i])})
						}
					}
				}
			}
			return true
		})
	}
	if w.err != nil {
		return nil, w.err
	}
	// the same statements once more, in source order and with their control context: stores, `if <cond> { return nil }`
	// guards, and sub-key lookups
	var events, lookups []string
	var walk func(list []ast.Stmt, ctx []string)
	render := func(ctx []string) string {
		var q []string
		for _, c := range ctx {
			q = append(q, coqString(c))
		}
		return coqList(q)
	}
	scan := func(n ast.Node, ctx []string) {
		ast.Inspect(n, func(n ast.Node) bool {
			switch n := n.(type) {
			case *ast.FuncLit, *ast.BlockStmt:
				return false
			case *ast.CallExpr:
				if call, ok := c04IsCall(n, "cache", "Subkey"); ok && len(call.Args) == 2 {
					lookups = append(lookups, fmt.Sprintf("(%s, %s)", coqString(c04Render(fset, call.Args[1])), render(ctx)))
				}
				if sel, ok := n.Fun.(*ast.SelectorExpr); ok && (sel.Sel.Name == "writeCacheGob" || sel.Sel.Name == "writeCacheReader") && len(n.Args) == 3 {
					events = append(events, fmt.Sprintf("(%s, %s, %s)", coqString("store"), coqString(c04Render(fset, n.Args[1])), render(ctx)))
				}
			}
			return true
		})
	}
	walk = func(list []ast.Stmt, ctx []string) {
		for _, st := range list {
			switch st := st.(type) {
			case *ast.IfStmt:
				cond := c04Render(fset, st.Cond)
				if len(st.Body.List) == 1 && st.Else == nil && st.Init == nil {
					if rs, ok := st.Body.List[0].(*ast.ReturnStmt); ok && len(rs.Results) == 1 && c04Render(fset, rs.Results[0]) == "nil" {
						events = append(events, fmt.Sprintf("(%s, %s, %s)", coqString("return-nil-if"), coqString(cond), render(ctx)))
						continue
					}
				}
				if st.Init != nil {
					scan(st.Init, ctx)
				}
				scan(st.Cond, ctx)
				c := "if " + cond
				if st.Init != nil {
					c = "if " + c04Render(fset, st.Init) + "; " + cond
				}
				walk(st.Body.List, append(append([]string(nil), ctx...), c))
				if e, ok := st.Else.(*ast.BlockStmt); ok {
					walk(e.List, append(append([]string(nil), ctx...), "else-of "+c))
				} else if st.Else != nil {
					walk([]ast.Stmt{st.Else}, append(append([]string(nil), ctx...), "else-of "+c))
				}
			case *ast.BlockStmt:
				walk(st.List, ctx)
			case *ast.RangeStmt:
				walk(st.Body.List, append(append([]string(nil), ctx...), "for range "+c04Render(fset, st.X)))
			case *ast.ForStmt:
				walk(st.Body.List, append(append([]string(nil), ctx...), "for"))
			default:
				scan(st, ctx)
			}
		}
	}
	walk(w.after, nil)
	b.WriteString("(* after the Sum, in source order with control context: (\"store\", kind, ctx) for writeCacheReader/writeCacheGob(a, kind, ...),\n   (\"return-nil-if\", cond, ctx) for `if cond { return nil }` *)\n")
	fmt.Fprintf(&b, "Definition gen_store_events : list (string * string * list string) :=\n  [%s].\n", strings.Join(events, ";\n   "))
	b.WriteString("(* cache.Subkey(_, kind) lookups with control context *)\n")
	fmt.Fprintf(&b, "Definition gen_lookup_ctx : list (string * list string) :=\n  [%s].\n\n", strings.Join(lookups, ";\n   "))
	b.WriteString("(* lintcmd/runner/runner.go subrunner.do: hash variable, its NewHash argument is only a debug name *)\n")
	fmt.Fprintf(&b, "Definition gen_action_key : list comp :=\n  %s.\n\n", c04Comps(w.comps))
	b.WriteString("(* assignments executed before the Sum, in source order (lhs, rhs) *)\n")
	fmt.Fprintf(&b, "Definition gen_action_defs : list (string * string) :=\n  %s.\n\n", c04Pairs(w.defs))
	b.WriteString("(* cache.Subkey(parent, kind) calls after the Sum *)\n")
	fmt.Fprintf(&b, "Definition gen_subkeys : list (string * string) :=\n  %s.\n\n", c04Pairs(subkeys))
	b.WriteString("(* writeCacheReader/writeCacheGob(a, kind, data) calls *)\n")
	fmt.Fprintf(&b, "Definition gen_stores : list (string * string) :=\n  %s.\n\n", c04Pairs(stores))
	b.WriteString("(* fields of the stored record(s) `out` and what is assigned to them *)\n")
	fmt.Fprintf(&b, "Definition gen_stored_fields : list (string * string) :=\n  %s.\n\n", c04Pairs(stored))

	// ---- computeHash
	fset2, f2, err := parseFile(repo, "go/loader/hash.go")
	if err != nil {
		return nil, err
	}
	ch := findFunc(f2, "computeHash")
	if ch == nil {
		return nil, fmt.Errorf("computeHash not found")
	}
	w2 := &c04Walker{fset: fset2}
	w2.stmts(ch.Body.List, nil, true)
	if w2.err != nil {
		return nil, w2.err
	}
	if w2.hashVar == "" || !w2.sumSeen {
		return nil, fmt.Errorf("computeHash: cache.NewHash / Sum not found")
	}
	fmt.Fprintf(&b, "(* go/loader/hash.go computeHash *)\nDefinition gen_pkg_key : list comp :=\n  %s.\n\n", c04Comps(w2.comps))
	fmt.Fprintf(&b, "Definition gen_pkg_defs : list (string * string) :=\n  %s.\n\n", c04Pairs(w2.defs))

	// ---- loader.Graph: spec.Hash / spec.Config
	fset3, f3, err := parseFile(repo, "go/loader/loader.go")
	if err != nil {
		return nil, err
	}
	gr := findFunc(f3, "Graph")
	if gr == nil {
		return nil, fmt.Errorf("loader.Graph not found")
	}
	var specDefs [][2]string
	ast.Inspect(gr.Body, func(n ast.Node) bool {
		as, ok := n.(*ast.AssignStmt)
		if !ok {
			return true
		}
		for i, l := range as.Lhs {
			s := c04Render(fset3, l)
			if s == "spec.Hash" || s == "spec.Config" {
				r := as.Rhs[0]
				if i < len(as.Rhs) && len(as.Rhs) == len(as.Lhs) {
					r = as.Rhs[i]
				}
				specDefs = append(specDefs, [2]string{s, c04Render(fset3, r)})
			}
			if s == "cfg" && len(as.Rhs) == 1 {
				specDefs = append(specDefs, [2]string{s, c04Render(fset3, as.Rhs[0])})
			}
		}
		return true
	})
	fmt.Fprintf(&b, "(* go/loader/loader.go Graph: where PackageSpec.Hash and PackageSpec.Config come from *)\nDefinition gen_spec_defs : list (string * string) :=\n  %s.\n\n", c04Pairs(specDefs))

	// ---- NewHash writes the salt; SetSalt call
	fset4, f4, err := parseFile(repo, "lintcmd/cache/hash.go")
	if err != nil {
		return nil, err
	}
	nh := findFunc(f4, "NewHash")
	if nh == nil {
		return nil, fmt.Errorf("cache.NewHash not found")
	}
	var nhWrites []string
	ast.Inspect(nh.Body, func(n ast.Node) bool {
		if call, ok := n.(*ast.CallExpr); ok {
			if sel, ok := call.Fun.(*ast.SelectorExpr); ok && sel.Sel.Name == "Write" && len(call.Args) == 1 {
				// only unconditional top-level writes count; check parent below
				nhWrites = append(nhWrites, c04Render(fset4, call.Args[0]))
			}
		}
		return true
	})
	// unconditional: the statement must be a direct child of the body
	var nhTop []string
	for _, st := range nh.Body.List {
		if es, ok := st.(*ast.ExprStmt); ok {
			if call, ok := es.X.(*ast.CallExpr); ok {
				if sel, ok := call.Fun.(*ast.SelectorExpr); ok && sel.Sel.Name == "Write" && len(call.Args) == 1 {
					nhTop = append(nhTop, c04Render(fset4, call.Args[0]))
				}
			}
		}
	}
	_ = nhWrites
	var nhs []string
	for _, s := range nhTop {
		nhs = append(nhs, coqString(s))
	}
	fmt.Fprintf(&b, "(* lintcmd/cache/hash.go NewHash: unconditional h.Write(<x>) statements *)\nDefinition gen_newhash_writes : list string := %s.\n", coqList(nhs))
	ss := findFunc(f4, "SetSalt")
	var saltAssign [][2]string
	if ss != nil {
		ast.Inspect(ss.Body, func(n ast.Node) bool {
			if as, ok := n.(*ast.AssignStmt); ok && len(as.Lhs) == 1 && len(as.Rhs) == 1 {
				saltAssign = append(saltAssign, [2]string{c04Render(fset4, as.Lhs[0]), c04Render(fset4, as.Rhs[0])})
			}
			return true
		})
	}
	fmt.Fprintf(&b, "Definition gen_setsalt_assigns : list (string * string) := %s.\n\n", c04Pairs(saltAssign))

	fset5, f5, err := parseFile(repo, "lintcmd/lint.go")
	if err != nil {
		return nil, err
	}
	var saltCalls [][2]string
	var lintDefs [][2]string
	for _, d := range f5.Decls {
		fd, ok := d.(*ast.FuncDecl)
		if !ok || fd.Body == nil {
			continue
		}
		ast.Inspect(fd.Body, func(n ast.Node) bool {
			if call, ok := n.(*ast.CallExpr); ok {
				if c, ok := c04IsCall(call, "cache", "SetSalt"); ok && len(c.Args) == 1 {
					saltCalls = append(saltCalls, [2]string{fd.Name.Name, c04Render(fset5, c.Args[0])})
				}
			}
			if as, ok := n.(*ast.AssignStmt); ok && fd.Name.Name == "newLinter" && len(as.Rhs) == 1 {
				lintDefs = append(lintDefs, [2]string{c04Render(fset5, as.Lhs[0]), c04Render(fset5, as.Rhs[0])})
			}
			return true
		})
	}
	fmt.Fprintf(&b, "(* lintcmd/lint.go: cache.SetSalt(<x>) call sites (function, argument) and newLinter's assignments *)\nDefinition gen_salt_calls : list (string * string) := %s.\n", c04Pairs(saltCalls))
	fmt.Fprintf(&b, "Definition gen_newlinter_defs : list (string * string) :=\n  %s.\n", c04Pairs(lintDefs))
	// computeSalt: what it reads
	cs := findFunc(f5, "computeSalt")
	var saltSrc []string
	if cs != nil {
		ast.Inspect(cs.Body, func(n ast.Node) bool {
			if call, ok := n.(*ast.CallExpr); ok {
				if sel, ok := call.Fun.(*ast.SelectorExpr); ok {
					if id, ok := sel.X.(*ast.Ident); ok && (id.Name == "os" || id.Name == "buildid") {
						saltSrc = append(saltSrc, coqString(id.Name+"."+sel.Sel.Name))
					}
				}
			}
			return true
		})
	}
	fmt.Fprintf(&b, "Definition gen_computesalt_calls : list string := %s.\n\n", coqList(saltSrc))

	// ---- config.Config fields
	_, f6, err := parseFile(repo, "config/config.go")
	if err != nil {
		return nil, err
	}
	var fields []string
	for _, d := range f6.Decls {
		gd, ok := d.(*ast.GenDecl)
		if !ok {
			continue
		}
		for _, s := range gd.Specs {
			ts, ok := s.(*ast.TypeSpec)
			if !ok || ts.Name.Name != "Config" {
				continue
			}
			st, ok := ts.Type.(*ast.StructType)
			if !ok {
				return nil, fmt.Errorf("config.Config is not a struct")
			}
			for _, fl := range st.Fields.List {
				if len(fl.Names) == 0 {
					fields = append(fields, coqString("(embedded)"))
				}
				for _, n := range fl.Names {
					fields = append(fields, coqString(n.Name))
				}
			}
		}
	}
	if len(fields) == 0 {
		return nil, fmt.Errorf("config.Config fields not found")
	}
	fmt.Fprintf(&b, "(* config/config.go: fields of Config, i.e. what `%%#v` of a Config prints *)\nDefinition gen_config_fields : list string := %s.\n\n", coqList(fields))

	// ---- environment reads in everything cmd/staticcheck links in from this module
	modpath := "honnef.co/go/tools"
	if data, err := os.ReadFile(filepath.Join(repo, "go.mod")); err == nil {
		for _, ln := range strings.Split(string(data), "\n") {
			if strings.HasPrefix(ln, "module ") {
				modpath = strings.TrimSpace(strings.TrimPrefix(ln, "module "))
			}
		}
	}
	dirs, err := c04Closure(repo, modpath, []string{"cmd/staticcheck"})
	if err != nil {
		return nil, err
	}
	var reads []string
	nfiles := 0
	for _, rel := range dirs {
		ents, _ := os.ReadDir(filepath.Join(repo, rel))
		for _, e := range ents {
			n := e.Name()
			if e.IsDir() || !strings.HasSuffix(n, ".go") || strings.HasSuffix(n, "_test.go") {
				continue
			}
			nfiles++
			fs := token.NewFileSet()
			af, err := parser.ParseFile(fs, filepath.Join(repo, rel, n), nil, parser.ParseComments)
			if err != nil {
				return nil, err
			}
			if c04VerifOnly(af) {
				// a verification hook (//go:build verif): not part of the shipped program
				continue
			}
			// local names of os / syscall
			names := map[string]string{}
			for _, im := range af.Imports {
				p, _ := strconv.Unquote(im.Path.Value)
				if p == "os" || p == "syscall" {
					ln := p
					if im.Name != nil {
						ln = im.Name.Name
					}
					names[ln] = p
				}
			}
			if len(names) == 0 {
				continue
			}
			for _, d := range af.Decls {
				fname := "(package level)"
				if fd, ok := d.(*ast.FuncDecl); ok {
					fname = fd.Name.Name
				}
				called := map[*ast.SelectorExpr]*ast.CallExpr{}
				ast.Inspect(d, func(nd ast.Node) bool {
					if call, ok := nd.(*ast.CallExpr); ok {
						if sel, ok := call.Fun.(*ast.SelectorExpr); ok {
							called[sel] = call
						}
					}
					return true
				})
				ast.Inspect(d, func(nd ast.Node) bool {
					sel, ok := nd.(*ast.SelectorExpr)
					if !ok {
						return true
					}
					id, ok := sel.X.(*ast.Ident)
					if !ok {
						return true
					}
					p, ok := names[id.Name]
					if !ok || !c04EnvFuncs[p][sel.Sel.Name] {
						return true
					}
					r := "" // mentioned without being called
					if call, ok := called[sel]; ok {
						r = c04Render(fs, call)
						if id.Name != p {
							r = p + strings.TrimPrefix(r, id.Name)
						}
					} else {
						r = p + "." + sel.Sel.Name + " (value)"
					}
					reads = append(reads, fmt.Sprintf("mkRead %s %s %s", coqString(filepath.ToSlash(filepath.Join(rel, n))), coqString(fname), coqString(r)))
					return true
				})
			}
		}
	}
	sort.Strings(reads)
	fmt.Fprintf(&b, "(* environment reads (os.Getenv/LookupEnv/Environ/ExpandEnv/UserCacheDir/UserHomeDir/UserConfigDir/Executable/Getwd/Hostname/TempDir,\n   syscall.Getenv/Environ) in the %d non-test files of the %d packages of this module that cmd/staticcheck imports transitively;\n   `(value)` = the function is mentioned without being called *)\n", nfiles, len(dirs))
	fmt.Fprintf(&b, "Definition gen_env_reads : list envread :=\n  [%s].\n", strings.Join(reads, ";\n   "))
	fmt.Fprintf(&b, "Definition gen_scanned_packages : nat := %d.\nDefinition gen_scanned_files : nat := %d.\n", len(dirs), nfiles)
	return map[string]string{"C04_CacheKey.v": b.String()}, nil
}
