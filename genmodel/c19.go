package main

import (
	"fmt"
	"go/ast"
	"go/token"
	"strconv"
	"strings"
)

// C19:
//   go/gcsizes/sizes.go: the basicSizes literal, the word multipliers of the constant cases of Sizeof
//   (string, slice, interface, catch-all) and the architecture table of ForArch.
//   cmd/structlayout-optimize/main.go: the comparison chain of byAlignAndSize.Less.
// Everything with a loop or recursion (Alignof, Offsetsof, the array and struct cases of Sizeof, sizes, combine,
// pad) is modelled by hand in coq/Model/C19.v and tied by the correspondence run.
func init() { register("C19", genC19) }

var c19Kinds = map[string]bool{
	"Bool": true, "Int": true, "Int8": true, "Int16": true, "Int32": true, "Int64": true,
	"Uint": true, "Uint8": true, "Uint16": true, "Uint32": true, "Uint64": true, "Uintptr": true,
	"Float32": true, "Float64": true, "Complex64": true, "Complex128": true, "String": true, "UnsafePointer": true,
}

// wordsOf recognises `s.WordSize` and `s.WordSize * N`.
func wordsOf(e ast.Expr) (int, bool) {
	isWS := func(e ast.Expr) bool {
		sel, ok := e.(*ast.SelectorExpr)
		return ok && sel.Sel.Name == "WordSize"
	}
	if isWS(e) {
		return 1, true
	}
	if be, ok := e.(*ast.BinaryExpr); ok && be.Op == token.MUL {
		if lit, ok := be.Y.(*ast.BasicLit); ok && isWS(be.X) {
			n, err := strconv.Atoi(lit.Value)
			return n, err == nil
		}
		if lit, ok := be.X.(*ast.BasicLit); ok && isWS(be.Y) {
			n, err := strconv.Atoi(lit.Value)
			return n, err == nil
		}
	}
	return 0, false
}

func singleReturnWords(body []ast.Stmt) (int, bool) {
	if len(body) != 1 {
		return 0, false
	}
	r, ok := body[0].(*ast.ReturnStmt)
	if !ok || len(r.Results) != 1 {
		return 0, false
	}
	return wordsOf(r.Results[0])
}

func genC19(repo string) (map[string]string, error) {
	_, f, err := parseFile(repo, "go/gcsizes/sizes.go")
	if err != nil {
		return nil, err
	}
	// ---- basicSizes
	var entries []string
	found := false
	for _, d := range f.Decls {
		gd, ok := d.(*ast.GenDecl)
		if !ok || gd.Tok != token.VAR {
			continue
		}
		for _, sp := range gd.Specs {
			vs := sp.(*ast.ValueSpec)
			if len(vs.Names) != 1 || vs.Names[0].Name != "basicSizes" || len(vs.Values) != 1 {
				continue
			}
			cl, ok := vs.Values[0].(*ast.CompositeLit)
			if !ok {
				return nil, fmt.Errorf("basicSizes is not a composite literal")
			}
			found = true
			for _, el := range cl.Elts {
				kv, ok := el.(*ast.KeyValueExpr)
				if !ok {
					return nil, fmt.Errorf("basicSizes: element without key")
				}
				sel, ok := kv.Key.(*ast.SelectorExpr)
				if !ok || !c19Kinds[sel.Sel.Name] {
					return nil, fmt.Errorf("basicSizes: unrecognised key")
				}
				lit, ok := kv.Value.(*ast.BasicLit)
				if !ok || lit.Kind != token.INT {
					return nil, fmt.Errorf("basicSizes[%s]: value is not an integer literal", sel.Sel.Name)
				}
				entries = append(entries, fmt.Sprintf("(K%s, %s)", sel.Sel.Name, lit.Value))
			}
		}
	}
	if !found {
		return nil, fmt.Errorf("basicSizes not found")
	}

	// ---- Sizeof: constant cases
	sz := findMethod(f, "Sizes", "Sizeof")
	if sz == nil {
		return nil, fmt.Errorf("Sizes.Sizeof not found")
	}
	words := map[string]int{}
	var tsw *ast.TypeSwitchStmt
	for _, st := range sz.Body.List {
		if s, ok := st.(*ast.TypeSwitchStmt); ok {
			tsw = s
		}
	}
	if tsw == nil {
		return nil, fmt.Errorf("Sizeof: type switch not found")
	}
	clauseName := func(cc *ast.CaseClause) string {
		if len(cc.List) != 1 {
			return ""
		}
		if st, ok := cc.List[0].(*ast.StarExpr); ok {
			if sel, ok := st.X.(*ast.SelectorExpr); ok {
				return sel.Sel.Name
			}
		}
		return ""
	}
	seen := map[string]bool{}
	for _, c := range tsw.Body.List {
		cc := c.(*ast.CaseClause)
		name := clauseName(cc)
		seen[name] = true
		switch name {
		case "Slice", "Interface":
			n, ok := singleReturnWords(cc.Body)
			if !ok {
				return nil, fmt.Errorf("Sizeof: case %s is not `return s.WordSize * N`", name)
			}
			words[name] = n
		case "Basic":
			// if k == types.String { return s.WordSize * N }
			for _, st := range cc.Body {
				is, ok := st.(*ast.IfStmt)
				if !ok {
					continue
				}
				be, ok := is.Cond.(*ast.BinaryExpr)
				if !ok || be.Op != token.EQL {
					continue
				}
				if sel, ok := be.Y.(*ast.SelectorExpr); ok && sel.Sel.Name == "String" {
					n, ok := singleReturnWords(is.Body.List)
					if !ok {
						return nil, fmt.Errorf("Sizeof: string case is not `return s.WordSize * N`")
					}
					words["String"] = n
				}
			}
		case "Array", "Struct":
		default:
			return nil, fmt.Errorf("Sizeof: unexpected case in the type switch")
		}
	}
	for _, need := range []string{"Basic", "Array", "Slice", "Struct", "Interface"} {
		if !seen[need] {
			return nil, fmt.Errorf("Sizeof: case *types.%s is missing", need)
		}
	}
	if _, ok := words["String"]; !ok {
		return nil, fmt.Errorf("Sizeof: string case not found")
	}
	n, ok := singleReturnWords(sz.Body.List[len(sz.Body.List)-1:])
	if !ok {
		return nil, fmt.Errorf("Sizeof: catch-all is not `return s.WordSize`")
	}
	words["catchall"] = n

	// ---- ForArch
	fa := findFunc(f, "ForArch")
	if fa == nil {
		return nil, fmt.Errorf("ForArch not found")
	}
	def := map[string]string{}
	var arches []string
	int64lit := func(e ast.Expr) (string, bool) {
		if call, ok := e.(*ast.CallExpr); ok && len(call.Args) == 1 {
			e = call.Args[0]
		}
		lit, ok := e.(*ast.BasicLit)
		if !ok || lit.Kind != token.INT {
			return "", false
		}
		return lit.Value, true
	}
	for _, st := range fa.Body.List {
		switch st := st.(type) {
		case *ast.AssignStmt:
			if st.Tok == token.DEFINE && len(st.Lhs) == 1 && len(st.Rhs) == 1 {
				if v, ok := int64lit(st.Rhs[0]); ok {
					def[st.Lhs[0].(*ast.Ident).Name] = v
				}
			}
		case *ast.SwitchStmt:
			for _, c := range st.Body.List {
				cc := c.(*ast.CaseClause)
				cur := map[string]string{"wordSize": def["wordSize"], "maxAlign": def["maxAlign"]}
				for _, b := range cc.Body {
					as, ok := b.(*ast.AssignStmt)
					if !ok || as.Tok != token.ASSIGN || len(as.Lhs) != len(as.Rhs) {
						return nil, fmt.Errorf("ForArch: unrecognised statement in a case")
					}
					for i := range as.Lhs {
						id, ok := as.Lhs[i].(*ast.Ident)
						v, ok2 := int64lit(as.Rhs[i])
						if !ok || !ok2 || (id.Name != "wordSize" && id.Name != "maxAlign") {
							return nil, fmt.Errorf("ForArch: unrecognised assignment in a case")
						}
						cur[id.Name] = v
					}
				}
				for _, e := range cc.List {
					lit, ok := e.(*ast.BasicLit)
					if !ok || lit.Kind != token.STRING {
						return nil, fmt.Errorf("ForArch: case label is not a string literal")
					}
					arches = append(arches, fmt.Sprintf("(%s%%string, (%s, %s))", coqString(strings.Trim(lit.Value, `"`)), cur["wordSize"], cur["maxAlign"]))
				}
			}
		}
	}
	if def["wordSize"] == "" || def["maxAlign"] == "" {
		return nil, fmt.Errorf("ForArch: defaults not found")
	}

	var b strings.Builder
	b.WriteString("From Coq Require Import List ZArith String.\nImport ListNotations.\nRequire Import Verif.Model.C19_Types.\nOpen Scope Z_scope.\n\n")
	b.WriteString("(* go/gcsizes/sizes.go: basicSizes *)\n")
	fmt.Fprintf(&b, "Definition gen_basic_sizes : list (basic * Z) :=\n  %s.\n\n", coqList(entries))
	b.WriteString("(* Sizeof: multiples of WordSize returned by the constant cases *)\n")
	fmt.Fprintf(&b, "Definition gen_string_words : Z := %d.\nDefinition gen_slice_words : Z := %d.\nDefinition gen_iface_words : Z := %d.\nDefinition gen_catchall_words : Z := %d.\n\n",
		words["String"], words["Slice"], words["Interface"], words["catchall"])
	b.WriteString("(* ForArch: (GOARCH, (WordSize, MaxAlign)) for the listed architectures and the default *)\n")
	fmt.Fprintf(&b, "Definition gen_arches : list (string * (Z * Z)) :=\n  %s.\nDefinition gen_arch_default : Z * Z := (%s, %s).\n", coqList(arches), def["wordSize"], def["maxAlign"])
	files := map[string]string{"C19_BasicSizes.v": b.String()}

	// ---- byAlignAndSize.Less
	_, of, err := parseFile(repo, "cmd/structlayout-optimize/main.go")
	if err != nil {
		return nil, err
	}
	less := findMethod(of, "byAlignAndSize", "Less")
	if less == nil {
		return nil, fmt.Errorf("byAlignAndSize.Less not found")
	}
	chain, err := c19Chain(less)
	if err != nil {
		return nil, err
	}
	var o strings.Builder
	o.WriteString("From Coq Require Import List ZArith.\nImport ListNotations.\nRequire Import Verif.Model.C19_Types.\n\n")
	o.WriteString("(* cmd/structlayout-optimize/main.go: byAlignAndSize.Less(i, j), in source order; falls through to `return false` *)\n")
	fmt.Fprintf(&o, "Definition gen_less_chain : list cmpstep :=\n  %s.\n", coqList(chain))
	files["C19_Optimize.v"] = o.String()
	return files, nil
}

// fieldOf recognises s.fields[<idx>].<Field> and returns (idx, Field).
func c19FieldOf(e ast.Expr) (string, string, bool) {
	sel, ok := e.(*ast.SelectorExpr)
	if !ok {
		return "", "", false
	}
	ix, ok := sel.X.(*ast.IndexExpr)
	if !ok {
		return "", "", false
	}
	id, ok := ix.Index.(*ast.Ident)
	if !ok {
		return "", "", false
	}
	return id.Name, sel.Sel.Name, true
}

func c19Chain(less *ast.FuncDecl) ([]string, error) {
	if len(less.Type.Params.List) != 1 || len(less.Type.Params.List[0].Names) != 2 {
		return nil, fmt.Errorf("Less: unexpected parameters")
	}
	pi, pj := less.Type.Params.List[0].Names[0].Name, less.Type.Params.List[0].Names[1].Name
	coqField := func(f string) (string, bool) {
		switch f {
		case "Size":
			return "OSize", true
		case "Align":
			return "OAlign", true
		}
		return "", false
	}
	isZero := func(e ast.Expr) bool {
		lit, ok := e.(*ast.BasicLit)
		return ok && lit.Value == "0"
	}
	retBool := func(body *ast.BlockStmt) (string, bool) {
		if len(body.List) != 1 {
			return "", false
		}
		r, ok := body.List[0].(*ast.ReturnStmt)
		if !ok || len(r.Results) != 1 {
			return "", false
		}
		id, ok := r.Results[0].(*ast.Ident)
		if !ok || (id.Name != "true" && id.Name != "false") {
			return "", false
		}
		return id.Name, true
	}
	// zeroTest recognises `A.f == 0 && B.f != 0` and returns (A, B, f)
	zeroTest := func(c ast.Expr) (string, string, string, bool) {
		and, ok := c.(*ast.BinaryExpr)
		if !ok || and.Op != token.LAND {
			return "", "", "", false
		}
		l, ok1 := and.X.(*ast.BinaryExpr)
		r, ok2 := and.Y.(*ast.BinaryExpr)
		if !ok1 || !ok2 || l.Op != token.EQL || r.Op != token.NEQ || !isZero(l.Y) || !isZero(r.Y) {
			return "", "", "", false
		}
		a, fa, oka := c19FieldOf(l.X)
		b, fb, okb := c19FieldOf(r.X)
		if !oka || !okb || fa != fb {
			return "", "", "", false
		}
		return a, b, fa, true
	}
	var chain []string
	stmts := less.Body.List
	for k := 0; k < len(stmts); k++ {
		switch st := stmts[k].(type) {
		case *ast.ReturnStmt:
			if k != len(stmts)-1 || len(st.Results) != 1 {
				return nil, fmt.Errorf("Less: unexpected return")
			}
			if id, ok := st.Results[0].(*ast.Ident); !ok || id.Name != "false" {
				return nil, fmt.Errorf("Less: final statement is not `return false`")
			}
		case *ast.IfStmt:
			if st.Init != nil || st.Else != nil {
				return nil, fmt.Errorf("Less: unrecognised if statement")
			}
			if a, b, f, ok := zeroTest(st.Cond); ok {
				// must be followed by the mirrored test
				rv, okr := retBool(st.Body)
				if k+1 >= len(stmts) {
					return nil, fmt.Errorf("Less: zero test without its mirror")
				}
				st2, ok2 := stmts[k+1].(*ast.IfStmt)
				if !ok2 {
					return nil, fmt.Errorf("Less: zero test without its mirror")
				}
				a2, b2, f2, okz := zeroTest(st2.Cond)
				rv2, okr2 := retBool(st2.Body)
				cf, okf := coqField(f)
				if !okr || !okz || !okr2 || !okf || f2 != f || a != pi || b != pj || a2 != pj || b2 != pi || rv != "true" || rv2 != "false" {
					return nil, fmt.Errorf("Less: zero-size test has an unrecognised shape")
				}
				chain = append(chain, "CZeroFirst "+cf)
				k++
				continue
			}
			// if i.f != j.f { return i.f > j.f }
			ne, ok := st.Cond.(*ast.BinaryExpr)
			if !ok || ne.Op != token.NEQ {
				return nil, fmt.Errorf("Less: unrecognised condition")
			}
			a, fa, oka := c19FieldOf(ne.X)
			b, fb, okb := c19FieldOf(ne.Y)
			if !oka || !okb || fa != fb || a != pi || b != pj || len(st.Body.List) != 1 {
				return nil, fmt.Errorf("Less: unrecognised comparison")
			}
			r, ok := st.Body.List[0].(*ast.ReturnStmt)
			if !ok || len(r.Results) != 1 {
				return nil, fmt.Errorf("Less: comparison body is not a return")
			}
			cmp, ok := r.Results[0].(*ast.BinaryExpr)
			if !ok {
				return nil, fmt.Errorf("Less: comparison body is not a comparison")
			}
			ca, cfa, okca := c19FieldOf(cmp.X)
			cb, cfb, okcb := c19FieldOf(cmp.Y)
			cf, okf := coqField(fa)
			if !okca || !okcb || cfa != fa || cfb != fa || !okf {
				return nil, fmt.Errorf("Less: comparison on a different field")
			}
			op := cmp.Op
			if ca == pj && cb == pi { // j.f > i.f  ==  i.f < j.f
				switch op {
				case token.GTR:
					op = token.LSS
				case token.LSS:
					op = token.GTR
				}
			} else if ca != pi || cb != pj {
				return nil, fmt.Errorf("Less: comparison operands unrecognised")
			}
			switch op {
			case token.GTR:
				chain = append(chain, "CDesc "+cf)
			case token.LSS:
				chain = append(chain, "CAsc "+cf)
			default:
				return nil, fmt.Errorf("Less: comparison operator unrecognised")
			}
		default:
			return nil, fmt.Errorf("Less: unrecognised statement")
		}
	}
	return chain, nil
}
