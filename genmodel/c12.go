package main

import (
	"fmt"
	"go/ast"
	"go/token"
	"strings"
)

// C12: lintcmd/cmd.go and lintcmd/lint.go
//   - the ordered comparison chain of the sort.Slice closure in (*Command).printDiagnostics
//     (`if X != Y { return X < Y }` ... `return X < Y`)
//   - the conjuncts of diagnostic.equal
//   - the fields copied by diagnostic.descriptor (and the fields of diagnosticDescriptor)
//   - the numeric values of lint.MergeIfAny / lint.MergeIfAll (analysis/lint/lint.go)
func init() { register("C12", genC12) }

// selector path (relative to a diagnostic) -> key field constructor
var c12KeyFields = map[string]string{
	"Position.Filename": "KFile", "Position.Offset": "KOff", "Position.Line": "KLine", "Position.Column": "KCol",
	"End.Filename": "KEFile", "End.Offset": "KEOff", "End.Line": "KELine", "End.Column": "KECol",
	"Message": "KMsg", "Category": "KCat", "BuildName": "KBuild", "Severity": "KSev", "MergeIf": "KMergeIf",
}

func selPath(e ast.Expr) (root string, path []string, ok bool) {
	switch e := e.(type) {
	case *ast.Ident:
		return e.Name, nil, true
	case *ast.SelectorExpr:
		r, p, ok := selPath(e.X)
		return r, append(p, e.Sel.Name), ok
	case *ast.ParenExpr:
		return selPath(e.X)
	}
	return "", nil, false
}

func genC12(repo string) (map[string]string, error) {
	_, f, err := parseFile(repo, "lintcmd/cmd.go")
	if err != nil {
		return nil, err
	}
	pd := findMethod(f, "Command", "printDiagnostics")
	if pd == nil {
		return nil, fmt.Errorf("printDiagnostics not found")
	}
	// the sort.Slice(diagnostics, func(i, j int) bool {...}) call
	var lit *ast.FuncLit
	var sliceName string
	nsort := 0
	ast.Inspect(pd.Body, func(n ast.Node) bool {
		call, ok := n.(*ast.CallExpr)
		if !ok {
			return true
		}
		sel, ok := call.Fun.(*ast.SelectorExpr)
		if !ok || len(call.Args) != 2 {
			return true
		}
		if x, ok := sel.X.(*ast.Ident); !ok || x.Name != "sort" || (sel.Sel.Name != "Slice" && sel.Sel.Name != "SliceStable") {
			return true
		}
		id, ok1 := call.Args[0].(*ast.Ident)
		fl, ok2 := call.Args[1].(*ast.FuncLit)
		if ok1 && ok2 && id.Name == "diagnostics" {
			nsort++
			lit, sliceName = fl, id.Name
		}
		return true
	})
	if lit == nil || nsort != 1 {
		return nil, fmt.Errorf("printDiagnostics: expected exactly one sort.Slice(diagnostics, func...) call, found %d", nsort)
	}
	if len(lit.Type.Params.List) != 1 || len(lit.Type.Params.List[0].Names) != 2 {
		return nil, fmt.Errorf("printDiagnostics: sort closure has unrecognised parameters")
	}
	iname, jname := lit.Type.Params.List[0].Names[0].Name, lit.Type.Params.List[0].Names[1].Name
	// aliases: name -> (side "i"/"j", path below the diagnostic)
	type alias struct {
		side string
		path []string
	}
	aliases := map[string]alias{}
	resolve := func(e ast.Expr) (alias, bool) {
		// diagnostics[i].A.B  |  alias.A.B
		var sels []string
		for {
			if s, ok := e.(*ast.SelectorExpr); ok {
				sels = append([]string{s.Sel.Name}, sels...)
				e = s.X
				continue
			}
			break
		}
		switch b := e.(type) {
		case *ast.Ident:
			a, ok := aliases[b.Name]
			if !ok {
				return alias{}, false
			}
			return alias{a.side, append(append([]string(nil), a.path...), sels...)}, true
		case *ast.IndexExpr:
			x, ok1 := b.X.(*ast.Ident)
			ix, ok2 := b.Index.(*ast.Ident)
			if !ok1 || !ok2 || x.Name != sliceName {
				return alias{}, false
			}
			switch ix.Name {
			case iname:
				return alias{"i", sels}, true
			case jname:
				return alias{"j", sels}, true
			}
		}
		return alias{}, false
	}
	cmpPair := func(be *ast.BinaryExpr, what string) (string, error) {
		a, ok1 := resolve(be.X)
		b, ok2 := resolve(be.Y)
		if !ok1 || !ok2 || a.side != "i" || b.side != "j" || strings.Join(a.path, ".") != strings.Join(b.path, ".") {
			return "", fmt.Errorf("printDiagnostics: sort closure: %s does not compare the same field of element i with element j", what)
		}
		return strings.Join(a.path, "."), nil
	}
	var key []string
	done := false
	for _, st := range lit.Body.List {
		if done {
			return nil, fmt.Errorf("printDiagnostics: sort closure: statements after the final return")
		}
		switch st := st.(type) {
		case *ast.AssignStmt:
			if st.Tok != token.DEFINE || len(st.Lhs) != len(st.Rhs) {
				return nil, fmt.Errorf("printDiagnostics: sort closure: unrecognised assignment")
			}
			for k := range st.Lhs {
				id, ok := st.Lhs[k].(*ast.Ident)
				a, ok2 := resolve(st.Rhs[k])
				if !ok || !ok2 {
					return nil, fmt.Errorf("printDiagnostics: sort closure: unrecognised alias definition")
				}
				aliases[id.Name] = a
			}
		case *ast.IfStmt:
			cond, ok := st.Cond.(*ast.BinaryExpr)
			if !ok || cond.Op != token.NEQ || st.Init != nil || st.Else != nil || len(st.Body.List) != 1 {
				return nil, fmt.Errorf("printDiagnostics: sort closure: step is not `if X != Y { return X < Y }`")
			}
			ret, ok := st.Body.List[0].(*ast.ReturnStmt)
			if !ok || len(ret.Results) != 1 {
				return nil, fmt.Errorf("printDiagnostics: sort closure: step body is not a return")
			}
			lt, ok := ret.Results[0].(*ast.BinaryExpr)
			if !ok || lt.Op != token.LSS {
				return nil, fmt.Errorf("printDiagnostics: sort closure: step does not return X < Y")
			}
			p1, err := cmpPair(cond, "condition")
			if err != nil {
				return nil, err
			}
			p2, err := cmpPair(lt, "return")
			if err != nil {
				return nil, err
			}
			if p1 != p2 {
				return nil, fmt.Errorf("printDiagnostics: sort closure: step tests %s but orders by %s", p1, p2)
			}
			k, ok := c12KeyFields[p1]
			if !ok {
				return nil, fmt.Errorf("printDiagnostics: sort closure: unknown field %s", p1)
			}
			key = append(key, k)
		case *ast.ReturnStmt:
			if len(st.Results) != 1 {
				return nil, fmt.Errorf("printDiagnostics: sort closure: final return unrecognised")
			}
			switch r := st.Results[0].(type) {
			case *ast.BinaryExpr:
				if r.Op != token.LSS {
					return nil, fmt.Errorf("printDiagnostics: sort closure: final return is not X < Y")
				}
				p, err := cmpPair(r, "final return")
				if err != nil {
					return nil, err
				}
				k, ok := c12KeyFields[p]
				if !ok {
					return nil, fmt.Errorf("printDiagnostics: sort closure: unknown field %s", p)
				}
				key = append(key, k)
			case *ast.Ident:
				if r.Name != "false" {
					return nil, fmt.Errorf("printDiagnostics: sort closure: final return unrecognised")
				}
			default:
				return nil, fmt.Errorf("printDiagnostics: sort closure: final return unrecognised")
			}
			done = true
		default:
			return nil, fmt.Errorf("printDiagnostics: sort closure: unrecognised statement")
		}
	}
	if !done {
		return nil, fmt.Errorf("printDiagnostics: sort closure: no final return")
	}

	// diagnostic.descriptor: composite literal `diagnosticDescriptor{F: diag.F, ...}`
	desc := findMethod(f, "diagnostic", "descriptor")
	if desc == nil {
		return nil, fmt.Errorf("diagnostic.descriptor not found")
	}
	dmap := map[string]string{"Position": "DPos", "End": "DEnd", "Category": "DCat", "Message": "DMsg"}
	var dfields []string
	recv := desc.Recv.List[0].Names[0].Name
	var cl *ast.CompositeLit
	if len(desc.Body.List) == 1 {
		if r, ok := desc.Body.List[0].(*ast.ReturnStmt); ok && len(r.Results) == 1 {
			cl, _ = r.Results[0].(*ast.CompositeLit)
		}
	}
	if cl == nil {
		return nil, fmt.Errorf("diagnostic.descriptor: body is not a single composite literal return")
	}
	for _, el := range cl.Elts {
		kv, ok := el.(*ast.KeyValueExpr)
		if !ok {
			return nil, fmt.Errorf("diagnostic.descriptor: unkeyed element")
		}
		k, ok1 := kv.Key.(*ast.Ident)
		root, path, ok2 := selPath(kv.Value)
		if !ok1 || !ok2 || root != recv || len(path) != 1 || path[0] != k.Name {
			return nil, fmt.Errorf("diagnostic.descriptor: element %v is not `F: %s.F`", kv.Key, recv)
		}
		d, ok := dmap[k.Name]
		if !ok {
			return nil, fmt.Errorf("diagnostic.descriptor: unknown field %s", k.Name)
		}
		dfields = append(dfields, d)
	}
	// the struct type must have exactly the fields that are copied, with comparable types as expected
	var stFields []string
	for _, d := range f.Decls {
		gd, ok := d.(*ast.GenDecl)
		if !ok {
			continue
		}
		for _, sp := range gd.Specs {
			ts, ok := sp.(*ast.TypeSpec)
			if !ok || ts.Name.Name != "diagnosticDescriptor" {
				continue
			}
			st, ok := ts.Type.(*ast.StructType)
			if !ok {
				return nil, fmt.Errorf("diagnosticDescriptor is not a struct")
			}
			for _, fl := range st.Fields.List {
				for _, n := range fl.Names {
					stFields = append(stFields, n.Name)
				}
			}
		}
	}
	if len(stFields) != len(dfields) {
		return nil, fmt.Errorf("diagnosticDescriptor has fields %v but descriptor() sets %d of them", stFields, len(dfields))
	}

	// diagnostic.equal (lintcmd/lint.go): conjunction of field equalities
	_, lf, err := parseFile(repo, "lintcmd/lint.go")
	if err != nil {
		return nil, err
	}
	eq := findMethod(lf, "diagnostic", "equal")
	if eq == nil {
		return nil, fmt.Errorf("diagnostic.equal not found")
	}
	if len(eq.Body.List) != 1 {
		return nil, fmt.Errorf("diagnostic.equal: body is not a single return")
	}
	ret, ok := eq.Body.List[0].(*ast.ReturnStmt)
	if !ok || len(ret.Results) != 1 {
		return nil, fmt.Errorf("diagnostic.equal: body is not a single return")
	}
	p := eq.Recv.List[0].Names[0].Name
	o := eq.Type.Params.List[0].Names[0].Name
	emap := map[string]string{"Position": "EPos", "End": "EEnd", "Message": "EMsg", "Category": "ECat", "Severity": "ESev", "MergeIf": "EMergeIf", "BuildName": "EBuild"}
	var efields []string
	var walk func(e ast.Expr) error
	walk = func(e ast.Expr) error {
		be, ok := e.(*ast.BinaryExpr)
		if !ok {
			return fmt.Errorf("diagnostic.equal: unrecognised conjunct")
		}
		if be.Op == token.LAND {
			if err := walk(be.X); err != nil {
				return err
			}
			return walk(be.Y)
		}
		if be.Op != token.EQL {
			return fmt.Errorf("diagnostic.equal: conjunct is not an equality")
		}
		folded := false
		x, y := be.X, be.Y
		if cx, ok := x.(*ast.CallExpr); ok {
			cy, ok2 := y.(*ast.CallExpr)
			fx, ok3 := cx.Fun.(*ast.Ident)
			if !ok2 || !ok3 || fx.Name != "makeCaseFoldedString" || len(cx.Args) != 1 || len(cy.Args) != 1 {
				return fmt.Errorf("diagnostic.equal: unrecognised call in conjunct")
			}
			if fy, ok := cy.Fun.(*ast.Ident); !ok || fy.Name != fx.Name {
				return fmt.Errorf("diagnostic.equal: unrecognised call in conjunct")
			}
			folded = true
			x, y = cx.Args[0], cy.Args[0]
		}
		r1, p1, ok1 := selPath(x)
		r2, p2, ok2 := selPath(y)
		if !ok1 || !ok2 || r1 != p || r2 != o || len(p1) != 1 || len(p2) != 1 || p1[0] != p2[0] {
			return fmt.Errorf("diagnostic.equal: conjunct does not compare the same field of both diagnostics")
		}
		ef, ok := emap[p1[0]]
		if !ok {
			return fmt.Errorf("diagnostic.equal: unknown field %s", p1[0])
		}
		if folded {
			if ef != "ECat" {
				return fmt.Errorf("diagnostic.equal: case folding applied to %s", p1[0])
			}
			ef = "ECatFolded"
		}
		efields = append(efields, ef)
		return nil
	}
	if err := walk(ret.Results[0]); err != nil {
		return nil, err
	}

	// merge strategies: const ( MergeIfAny MergeStrategy = iota; MergeIfAll )
	_, af, err := parseFile(repo, "analysis/lint/lint.go")
	if err != nil {
		return nil, err
	}
	anyV, allV := -1, -1
	for _, d := range af.Decls {
		gd, ok := d.(*ast.GenDecl)
		if !ok || gd.Tok != token.CONST {
			continue
		}
		isIota := false
		for i, sp := range gd.Specs {
			vs := sp.(*ast.ValueSpec)
			if i == 0 {
				if len(vs.Values) == 1 {
					if id, ok := vs.Values[0].(*ast.Ident); ok && id.Name == "iota" {
						isIota = true
					}
				}
			} else if len(vs.Values) != 0 {
				isIota = false
			}
			for _, n := range vs.Names {
				if n.Name == "MergeIfAny" && isIota {
					anyV = i
				}
				if n.Name == "MergeIfAll" && isIota {
					allV = i
				}
			}
		}
	}
	if anyV < 0 || allV < 0 {
		return nil, fmt.Errorf("analysis/lint: MergeIfAny/MergeIfAll are not consecutive iota constants")
	}

	var b strings.Builder
	b.WriteString("From Coq Require Import List ZArith.\nImport ListNotations.\nRequire Import Verif.Model.C12_Types.\n\n")
	b.WriteString("(* lintcmd/cmd.go:printDiagnostics: comparison chain of the sort closure, most significant field first *)\n")
	fmt.Fprintf(&b, "Definition gen_sort_key : list kfield :=\n  %s.\n\n", coqList(key))
	b.WriteString("(* lintcmd/lint.go:diagnostic.equal: the conjuncts *)\n")
	fmt.Fprintf(&b, "Definition gen_equal_fields : list efield :=\n  %s.\n\n", coqList(efields))
	b.WriteString("(* lintcmd/cmd.go:diagnostic.descriptor: the fields that identify a problem *)\n")
	fmt.Fprintf(&b, "Definition gen_descr_fields : list dfield :=\n  %s.\n\n", coqList(dfields))
	b.WriteString("(* analysis/lint/lint.go: numeric values of the merge strategies *)\n")
	fmt.Fprintf(&b, "Definition gen_merge_any : Z := %d%%Z.\nDefinition gen_merge_all : Z := %d%%Z.\n", anyV, allV)
	return map[string]string{"C12_SortKey.v": b.String()}, nil
}
