package main

import (
	"bytes"
	"fmt"
	"go/ast"
	"go/printer"
	"go/token"
	"strconv"
	"strings"
)

func c13NodeString(n ast.Node) string {
	var buf bytes.Buffer
	printer.Fprint(&buf, token.NewFileSet(), n)
	return buf.String()
}

// C13: analysis/facts/nilness/nilness.go
//   - the Nilness constants (const block with `NeverNil Nilness = iota + 1`)
//   - the 5x5 literal `latticeMerge`
//   - the shapes of lattice.Ident / lattice.Equals / lattice.Merge (zero value, ==, componentwise table lookup)
// Emits coq/Gen/C13_NilnessTable.v.
func init() { register("C13", genC13) }

func genC13(repo string) (map[string]string, error) {
	_, f, err := parseFile(repo, "analysis/facts/nilness/nilness.go")
	if err != nil {
		return nil, err
	}
	// --- constants
	consts := map[string]int{}
	var order []string
	for _, d := range f.Decls {
		gd, ok := d.(*ast.GenDecl)
		if !ok || gd.Tok != token.CONST {
			continue
		}
		isNil := false
		base := 0
		for i, sp := range gd.Specs {
			vs := sp.(*ast.ValueSpec)
			if i == 0 {
				id, ok := vs.Type.(*ast.Ident)
				if !ok || id.Name != "Nilness" || len(vs.Values) != 1 {
					break
				}
				be, ok := vs.Values[0].(*ast.BinaryExpr)
				if !ok || be.Op != token.ADD {
					return nil, fmt.Errorf("Nilness const block: first value is not `iota + k`")
				}
				x, okx := be.X.(*ast.Ident)
				y, oky := be.Y.(*ast.BasicLit)
				if !okx || !oky || x.Name != "iota" {
					return nil, fmt.Errorf("Nilness const block: first value is not `iota + k`")
				}
				base, _ = strconv.Atoi(y.Value)
				isNil = true
			} else if isNil && (vs.Type != nil || len(vs.Values) != 0) {
				return nil, fmt.Errorf("Nilness const block: spec %d is not an implicit iota repetition", i)
			}
			if isNil {
				if len(vs.Names) != 1 {
					return nil, fmt.Errorf("Nilness const block: multiple names in one spec")
				}
				consts[vs.Names[0].Name] = base + i
				order = append(order, vs.Names[0].Name)
			}
		}
	}
	for _, want := range []string{"NeverNil", "AlwaysNil", "MaybeNilGlobal", "MaybeNil"} {
		if _, ok := consts[want]; !ok {
			return nil, fmt.Errorf("Nilness constant %s not found", want)
		}
	}
	evalIdx := func(e ast.Expr) (int, error) {
		switch e := e.(type) {
		case *ast.BasicLit:
			return strconv.Atoi(e.Value)
		case *ast.Ident:
			if v, ok := consts[e.Name]; ok {
				return v, nil
			}
		}
		return 0, fmt.Errorf("latticeMerge: unrecognised index/value expression")
	}
	// --- table
	var lit *ast.CompositeLit
	dim := 0
	for _, d := range f.Decls {
		gd, ok := d.(*ast.GenDecl)
		if !ok || gd.Tok != token.VAR {
			continue
		}
		for _, sp := range gd.Specs {
			vs := sp.(*ast.ValueSpec)
			if len(vs.Names) == 1 && vs.Names[0].Name == "latticeMerge" && len(vs.Values) == 1 {
				cl, ok := vs.Values[0].(*ast.CompositeLit)
				if !ok {
					return nil, fmt.Errorf("latticeMerge is not a composite literal")
				}
				at, ok := cl.Type.(*ast.ArrayType)
				if !ok {
					return nil, fmt.Errorf("latticeMerge is not an array")
				}
				n, err := strconv.Atoi(at.Len.(*ast.BasicLit).Value)
				if err != nil {
					return nil, err
				}
				dim = n
				lit = cl
			}
		}
	}
	if lit == nil {
		return nil, fmt.Errorf("latticeMerge not found")
	}
	table := make([][]int, dim)
	for i := range table {
		table[i] = make([]int, dim) // Go zero value for absent entries
	}
	fill := func(cl *ast.CompositeLit, set func(k, v ast.Expr) error) error {
		next := 0
		for _, el := range cl.Elts {
			if kv, ok := el.(*ast.KeyValueExpr); ok {
				k, err := evalIdx(kv.Key)
				if err != nil {
					return err
				}
				next = k
				if err := set(kv.Key, kv.Value); err != nil {
					return err
				}
			} else {
				if err := set(&ast.BasicLit{Kind: token.INT, Value: strconv.Itoa(next)}, el); err != nil {
					return err
				}
			}
			next++
		}
		return nil
	}
	err = fill(lit, func(k, v ast.Expr) error {
		i, err := evalIdx(k)
		if err != nil {
			return err
		}
		row, ok := v.(*ast.CompositeLit)
		if !ok || i >= dim {
			return fmt.Errorf("latticeMerge: row %d unrecognised", i)
		}
		return fill(row, func(k2, v2 ast.Expr) error {
			j, err := evalIdx(k2)
			if err != nil {
				return err
			}
			x, err := evalIdx(v2)
			if err != nil {
				return err
			}
			if j >= dim {
				return fmt.Errorf("latticeMerge: column out of range")
			}
			table[i][j] = x
			return nil
		})
	})
	if err != nil {
		return nil, err
	}

	// --- shapes of the lattice methods
	src := c13NodeString
	id := findMethod(f, "lattice", "Ident")
	eq := findMethod(f, "lattice", "Equals")
	mg := findMethod(f, "lattice", "Merge")
	if id == nil || eq == nil || mg == nil {
		return nil, fmt.Errorf("lattice methods not found")
	}
	norm := func(s string) string { return strings.Join(strings.Fields(s), " ") }
	if got := norm(src(id.Body)); got != "{ return ValueNilness{} }" {
		return nil, fmt.Errorf("lattice.Ident has unrecognised body: %s", got)
	}
	if got := norm(src(eq.Body)); got != "{ return a == b }" {
		return nil, fmt.Errorf("lattice.Equals has unrecognised body: %s", got)
	}
	if got := norm(src(mg.Body)); got != "{ return ValueNilness{Inner: latticeMerge[a.Inner][b.Inner], Outer: latticeMerge[a.Outer][b.Outer]} }" {
		return nil, fmt.Errorf("lattice.Merge has unrecognised body: %s", got)
	}

	var b strings.Builder
	b.WriteString("From Coq Require Import List NArith.\nImport ListNotations.\nLocal Open Scope N_scope.\n\n")
	b.WriteString("(* analysis/facts/nilness/nilness.go: Nilness constants (0 = no information, the lattice identity) *)\n")
	for _, name := range order {
		fmt.Fprintf(&b, "Definition gen_%s : N := %d.\n", name, consts[name])
	}
	fmt.Fprintf(&b, "Definition gen_nilness_dim : N := %d.\n\n", dim)
	b.WriteString("(* latticeMerge[a][b], rows and columns 0..dim-1 *)\nDefinition gen_nilness_table : list (list N) :=\n  [")
	for i, row := range table {
		if i > 0 {
			b.WriteString(";\n   ")
		}
		var cells []string
		for _, x := range row {
			cells = append(cells, strconv.Itoa(x))
		}
		b.WriteString("[" + strings.Join(cells, "; ") + "]")
	}
	b.WriteString("].\n")
	return map[string]string{"C13_NilnessTable.v": b.String()}, nil
}
