package main

import (
	"fmt"
	"go/ast"
	"go/parser"
	"go/token"
	"os/exec"
	"path/filepath"
	"runtime"
	"sort"
	"strconv"
	"strings"
)

// C09: pattern/match.go
//   - the two wrapper type switches of match (left / right operand): type, field unwrapped, nil check present
//   - the frame operations (m.push/m.pop/m.merge) of Or.Match and Not.Match and where they stand
//   - whether Matcher.merge ORs the dropped frame into the enclosing one
//   - tokensByString
// and from GOROOT/src/go/ast/ast.go the types implementing ast.Expr / ast.Stmt (the x.(ast.Expr) casts of match).
func init() { register("C09", genC09) }

var tokenByName = map[string]token.Token{
	"INT": token.INT, "FLOAT": token.FLOAT, "IMAG": token.IMAG, "CHAR": token.CHAR, "STRING": token.STRING,
	"ADD": token.ADD, "SUB": token.SUB, "MUL": token.MUL, "QUO": token.QUO, "REM": token.REM,
	"AND": token.AND, "OR": token.OR, "XOR": token.XOR, "SHL": token.SHL, "SHR": token.SHR, "AND_NOT": token.AND_NOT,
	"ADD_ASSIGN": token.ADD_ASSIGN, "SUB_ASSIGN": token.SUB_ASSIGN, "MUL_ASSIGN": token.MUL_ASSIGN,
	"QUO_ASSIGN": token.QUO_ASSIGN, "REM_ASSIGN": token.REM_ASSIGN, "AND_ASSIGN": token.AND_ASSIGN,
	"OR_ASSIGN": token.OR_ASSIGN, "XOR_ASSIGN": token.XOR_ASSIGN, "SHL_ASSIGN": token.SHL_ASSIGN,
	"SHR_ASSIGN": token.SHR_ASSIGN, "AND_NOT_ASSIGN": token.AND_NOT_ASSIGN,
	"LAND": token.LAND, "LOR": token.LOR, "ARROW": token.ARROW, "INC": token.INC, "DEC": token.DEC,
	"EQL": token.EQL, "LSS": token.LSS, "GTR": token.GTR, "ASSIGN": token.ASSIGN, "NOT": token.NOT,
	"NEQ": token.NEQ, "LEQ": token.LEQ, "GEQ": token.GEQ, "DEFINE": token.DEFINE, "ELLIPSIS": token.ELLIPSIS,
	"IMPORT": token.IMPORT, "VAR": token.VAR, "TYPE": token.TYPE, "CONST": token.CONST, "BREAK": token.BREAK,
	"CONTINUE": token.CONTINUE, "GOTO": token.GOTO, "FALLTHROUGH": token.FALLTHROUGH,
	"LPAREN": token.LPAREN, "RPAREN": token.RPAREN, "TILDE": token.TILDE,
}

// isCallOn reports whether e is the call recv.name(...)
func isCallOn(e ast.Expr, name string) bool {
	call, ok := e.(*ast.CallExpr)
	if !ok {
		return false
	}
	sel, ok := call.Fun.(*ast.SelectorExpr)
	return ok && sel.Sel.Name == name
}

func isMatchCall(e ast.Expr) bool {
	call, ok := e.(*ast.CallExpr)
	if !ok {
		return false
	}
	id, ok := call.Fun.(*ast.Ident)
	return ok && id.Name == "match"
}

// frameOps: a run of statements that are exactly m.push() / m.pop() / m.merge()
func frameOps(stmts []ast.Stmt) ([]string, bool) {
	var ops []string
	for _, st := range stmts {
		es, ok := st.(*ast.ExprStmt)
		if !ok {
			return nil, false
		}
		switch {
		case isCallOn(es.X, "push"):
			ops = append(ops, "OpPush")
		case isCallOn(es.X, "pop"):
			ops = append(ops, "OpPop")
		case isCallOn(es.X, "merge"):
			ops = append(ops, "OpMerge")
		default:
			return nil, false
		}
	}
	return ops, true
}

func isNilCmp(e ast.Expr, v string) bool {
	be, ok := e.(*ast.BinaryExpr)
	if !ok || be.Op != token.EQL {
		return false
	}
	x, ok1 := be.X.(*ast.Ident)
	y, ok2 := be.Y.(*ast.Ident)
	return ok1 && ok2 && x.Name == v && y.Name == "nil"
}

// matchArgField: `return match(m, A, B)`; returns which argument position (1|2) is `v.F` and F, or nilArg when it is `nil`
func matchReturn(st ast.Stmt) (args []ast.Expr, ok bool) {
	ret, ok := st.(*ast.ReturnStmt)
	if !ok || len(ret.Results) != 1 || !isMatchCall(ret.Results[0]) {
		return nil, false
	}
	call := ret.Results[0].(*ast.CallExpr)
	if len(call.Args) != 3 {
		return nil, false
	}
	return call.Args, true
}

func selField(e ast.Expr, v string) (string, bool) {
	sel, ok := e.(*ast.SelectorExpr)
	if !ok {
		return "", false
	}
	id, ok := sel.X.(*ast.Ident)
	if !ok || id.Name != v {
		return "", false
	}
	return sel.Sel.Name, true
}

func isIdent(e ast.Expr, name string) bool {
	id, ok := e.(*ast.Ident)
	return ok && id.Name == name
}

// wrapperSwitch transcribes `switch v := v.(type) { case *ast.T: ... }` of match; pos = index of the operand (1 = l, 2 = r).
func wrapperSwitch(sw *ast.TypeSwitchStmt, v string, pos int) ([]string, error) {
	var rows []string
	for _, c := range sw.Body.List {
		cc := c.(*ast.CaseClause)
		if len(cc.List) != 1 {
			return nil, fmt.Errorf("wrapper switch on %s: case with %d types", v, len(cc.List))
		}
		star, ok := cc.List[0].(*ast.StarExpr)
		if !ok {
			return nil, fmt.Errorf("wrapper switch on %s: case is not a pointer type", v)
		}
		sel, ok := star.X.(*ast.SelectorExpr)
		if !ok {
			return nil, fmt.Errorf("wrapper switch on %s: case is not *ast.T", v)
		}
		ty := sel.Sel.Name
		body := cc.Body
		nilchecked := false
		field := ""
		// optional leading / enclosing nil check
		if len(body) >= 1 {
			if ifs, ok := body[0].(*ast.IfStmt); ok && isNilCmp(ifs.Cond, v) && ifs.Init == nil {
				if len(ifs.Body.List) != 1 {
					return nil, fmt.Errorf("wrapper switch on %s, %s: nil branch unrecognised", v, ty)
				}
				args, ok := matchReturn(ifs.Body.List[0])
				if !ok || !isIdent(args[pos], "nil") || !isIdent(args[3-pos], map[int]string{1: "l", 2: "r"}[3-pos]) {
					return nil, fmt.Errorf("wrapper switch on %s, %s: nil branch is not `return match(m, .., nil)`", v, ty)
				}
				nilchecked = true
				if ifs.Else != nil {
					eb, ok := ifs.Else.(*ast.BlockStmt)
					if !ok || len(body) != 1 {
						return nil, fmt.Errorf("wrapper switch on %s, %s: else branch unrecognised", v, ty)
					}
					body = eb.List
				} else {
					body = body[1:]
				}
			}
		}
		switch len(body) {
		case 0:
			if !nilchecked {
				return nil, fmt.Errorf("wrapper switch on %s, %s: empty case", v, ty)
			}
		case 1:
			args, ok := matchReturn(body[0])
			if !ok {
				return nil, fmt.Errorf("wrapper switch on %s, %s: body is not `return match(...)`", v, ty)
			}
			f, ok := selField(args[pos], v)
			if !ok || !isIdent(args[3-pos], map[int]string{1: "l", 2: "r"}[3-pos]) || !isIdent(args[0], "m") {
				return nil, fmt.Errorf("wrapper switch on %s, %s: arguments unrecognised", v, ty)
			}
			field = f
		default:
			return nil, fmt.Errorf("wrapper switch on %s, %s: unrecognised body", v, ty)
		}
		rows = append(rows, fmt.Sprintf("(%s, %s, %v)", coqString(ty), coqString(field), nilchecked))
	}
	return rows, nil
}

func goroot(repo string) string {
	cmd := exec.Command("go", "env", "GOROOT")
	cmd.Dir = repo
	if out, err := cmd.Output(); err == nil {
		if s := strings.TrimSpace(string(out)); s != "" {
			return s
		}
	}
	return runtime.GOROOT()
}

// astKinds returns the go/ast struct types having the given marker method (exprNode / stmtNode / declNode / specNode).
func astKinds(root, marker string) ([]string, error) {
	fset := token.NewFileSet()
	f, err := parser.ParseFile(fset, filepath.Join(root, "src", "go", "ast", "ast.go"), nil, 0)
	if err != nil {
		return nil, err
	}
	var out []string
	for _, d := range f.Decls {
		fd, ok := d.(*ast.FuncDecl)
		if !ok || fd.Recv == nil || fd.Name.Name != marker {
			continue
		}
		t := fd.Recv.List[0].Type
		if s, ok := t.(*ast.StarExpr); ok {
			t = s.X
		}
		if id, ok := t.(*ast.Ident); ok {
			out = append(out, id.Name)
		}
	}
	sort.Strings(out)
	if len(out) == 0 {
		return nil, fmt.Errorf("no %s methods found in go/ast", marker)
	}
	return out, nil
}

func strList(l []string) string {
	var q []string
	for _, s := range l {
		q = append(q, coqString(s))
	}
	return coqList(q)
}

func genC09(repo string) (map[string]string, error) {
	_, f, err := parseFile(repo, "pattern/match.go")
	if err != nil {
		return nil, err
	}
	// ---- match: the two wrapper switches are the first two type switches of the function body
	mf := findFunc(f, "match")
	if mf == nil {
		return nil, fmt.Errorf("func match not found")
	}
	var sws []*ast.TypeSwitchStmt
	for _, st := range mf.Body.List {
		if sw, ok := st.(*ast.TypeSwitchStmt); ok {
			sws = append(sws, sw)
		}
	}
	if len(sws) != 2 {
		return nil, fmt.Errorf("match: expected 2 top-level type switches, found %d", len(sws))
	}
	swVar := func(sw *ast.TypeSwitchStmt) string {
		as, ok := sw.Assign.(*ast.AssignStmt)
		if !ok {
			return ""
		}
		ta, ok := as.Rhs[0].(*ast.TypeAssertExpr)
		if !ok {
			return ""
		}
		id, _ := ta.X.(*ast.Ident)
		if id == nil {
			return ""
		}
		return id.Name
	}
	if swVar(sws[0]) != "l" || swVar(sws[1]) != "r" {
		return nil, fmt.Errorf("match: wrapper switches are not on l then r")
	}
	left, err := wrapperSwitch(sws[0], "l", 1)
	if err != nil {
		return nil, err
	}
	right, err := wrapperSwitch(sws[1], "r", 2)
	if err != nil {
		return nil, err
	}

	// ---- Or.Match
	om := findMethod(f, "Or", "Match")
	if om == nil {
		return nil, fmt.Errorf("Or.Match not found")
	}
	if len(om.Body.List) != 2 {
		return nil, fmt.Errorf("Or.Match: unrecognised shape")
	}
	loop, ok := om.Body.List[0].(*ast.RangeStmt)
	if !ok {
		return nil, fmt.Errorf("Or.Match: no range loop")
	}
	if ret, ok := om.Body.List[1].(*ast.ReturnStmt); !ok || len(ret.Results) != 2 || !isIdent(ret.Results[1], "false") {
		return nil, fmt.Errorf("Or.Match: does not end in `return nil, false`")
	}
	lb := loop.Body.List
	if len(lb) < 1 {
		return nil, fmt.Errorf("Or.Match: empty loop")
	}
	ifs, ok := lb[len(lb)-1].(*ast.IfStmt)
	if !ok || ifs.Init == nil {
		return nil, fmt.Errorf("Or.Match: loop does not end in `if ret, ok := match(...); ok`")
	}
	if as, ok := ifs.Init.(*ast.AssignStmt); !ok || len(as.Rhs) != 1 || !isMatchCall(as.Rhs[0]) || !isIdent(ifs.Cond, "ok") {
		return nil, fmt.Errorf("Or.Match: if-init is not a match call tested by ok")
	}
	orPre, ok := frameOps(lb[:len(lb)-1])
	if !ok {
		return nil, fmt.Errorf("Or.Match: statements before the match are not frame operations")
	}
	okBody := ifs.Body.List
	if len(okBody) < 1 {
		return nil, fmt.Errorf("Or.Match: empty success branch")
	}
	if ret, ok := okBody[len(okBody)-1].(*ast.ReturnStmt); !ok || len(ret.Results) != 2 || !isIdent(ret.Results[1], "true") {
		return nil, fmt.Errorf("Or.Match: success branch does not return true")
	}
	orOk, ok := frameOps(okBody[:len(okBody)-1])
	if !ok {
		return nil, fmt.Errorf("Or.Match: success branch has other statements than frame operations")
	}
	var orFail []string
	if ifs.Else != nil {
		eb, ok := ifs.Else.(*ast.BlockStmt)
		if !ok {
			return nil, fmt.Errorf("Or.Match: else branch unrecognised")
		}
		orFail, ok = frameOps(eb.List)
		if !ok {
			return nil, fmt.Errorf("Or.Match: failure branch has other statements than frame operations")
		}
	}

	// ---- Not.Match:  OPS; _, ok := match(m, not.Node, node); OPS; if ok { return nil, false }; return node, true
	nm := findMethod(f, "Not", "Match")
	if nm == nil {
		return nil, fmt.Errorf("Not.Match not found")
	}
	nb := nm.Body.List
	mi := -1
	for i, st := range nb {
		if as, ok := st.(*ast.AssignStmt); ok && len(as.Rhs) == 1 && isMatchCall(as.Rhs[0]) {
			mi = i
		}
	}
	if mi < 0 || len(nb) < mi+3 {
		return nil, fmt.Errorf("Not.Match: unrecognised shape")
	}
	notPre, ok1 := frameOps(nb[:mi])
	notPost, ok2 := frameOps(nb[mi+1 : len(nb)-2])
	if !ok1 || !ok2 {
		return nil, fmt.Errorf("Not.Match: statements around the match are not frame operations")
	}
	nif, ok := nb[len(nb)-2].(*ast.IfStmt)
	if !ok || !isIdent(nif.Cond, "ok") || len(nif.Body.List) != 1 {
		return nil, fmt.Errorf("Not.Match: no `if ok { return nil, false }`")
	}
	if ret, ok := nif.Body.List[0].(*ast.ReturnStmt); !ok || len(ret.Results) != 2 || !isIdent(ret.Results[1], "false") {
		return nil, fmt.Errorf("Not.Match: `if ok` does not return false")
	}
	if ret, ok := nb[len(nb)-1].(*ast.ReturnStmt); !ok || len(ret.Results) != 2 || !isIdent(ret.Results[1], "true") {
		return nil, fmt.Errorf("Not.Match: does not end in `return node, true`")
	}

	// ---- Matcher.merge: does it OR the dropped frame into the new top?
	mm := findMethod(f, "Matcher", "merge")
	if mm == nil {
		return nil, fmt.Errorf("Matcher.merge not found")
	}
	propagates := false
	shrinks := false
	ast.Inspect(mm.Body, func(n ast.Node) bool {
		as, ok := n.(*ast.AssignStmt)
		if !ok || len(as.Lhs) != 1 {
			return true
		}
		if as.Tok == token.OR_ASSIGN {
			if ix, ok := as.Lhs[0].(*ast.IndexExpr); ok {
				if f, ok := selField(ix.X, "m"); ok && f == "setBindings" {
					propagates = true
				}
			}
		}
		if as.Tok == token.ASSIGN {
			if f, ok := selField(as.Lhs[0], "m"); ok && f == "setBindings" {
				if _, ok := as.Rhs[0].(*ast.SliceExpr); ok {
					shrinks = true
				}
			}
		}
		return true
	})
	if !shrinks {
		return nil, fmt.Errorf("Matcher.merge: does not drop the top frame")
	}

	// ---- tokensByString
	var toks []string
	for _, d := range f.Decls {
		gd, ok := d.(*ast.GenDecl)
		if !ok {
			continue
		}
		for _, sp := range gd.Specs {
			vs, ok := sp.(*ast.ValueSpec)
			if !ok || len(vs.Names) != 1 || vs.Names[0].Name != "tokensByString" || len(vs.Values) != 1 {
				continue
			}
			cl, ok := vs.Values[0].(*ast.CompositeLit)
			if !ok {
				return nil, fmt.Errorf("tokensByString: not a composite literal")
			}
			for _, el := range cl.Elts {
				kv := el.(*ast.KeyValueExpr)
				key, err := strconv.Unquote(kv.Key.(*ast.BasicLit).Value)
				if err != nil {
					return nil, err
				}
				call, ok := kv.Value.(*ast.CallExpr)
				if !ok || len(call.Args) != 1 {
					return nil, fmt.Errorf("tokensByString[%q]: unrecognised value", key)
				}
				name, ok := selField(call.Args[0], "token")
				if !ok {
					return nil, fmt.Errorf("tokensByString[%q]: not token.X", key)
				}
				tv, ok := tokenByName[name]
				if !ok {
					return nil, fmt.Errorf("tokensByString[%q]: unknown token.%s", key, name)
				}
				toks = append(toks, fmt.Sprintf("(%s, %d%%Z)", coqString(key), int(tv)))
			}
		}
	}
	if len(toks) == 0 {
		return nil, fmt.Errorf("tokensByString not found")
	}

	root := goroot(repo)
	exprs, err := astKinds(root, "exprNode")
	if err != nil {
		return nil, err
	}
	stmts, err := astKinds(root, "stmtNode")
	if err != nil {
		return nil, err
	}

	var b strings.Builder
	b.WriteString("From Coq Require Import List String ZArith.\nImport ListNotations.\nRequire Import Verif.Model.C09_Types.\nOpen Scope string_scope.\n\n")
	b.WriteString("(* pattern/match.go, transcribed: wrapper switches of match, frame operations of Or.Match / Not.Match,\n   Matcher.merge, tokensByString; go/ast: types with exprNode / stmtNode methods *)\n")
	fmt.Fprintf(&b, "Definition gen_cfg : matcher_cfg := mkCfg\n  %s\n  %s\n  %s %s %s\n  %s %s\n  %v\n  %s\n  %s\n  %s.\n",
		coqList(left), coqList(right), coqList(orPre), coqList(orOk), coqList(orFail), coqList(notPre), coqList(notPost),
		propagates, coqList(toks), strList(exprs), strList(stmts))
	return map[string]string{"C09_Matcher.v": b.String()}, nil
}
