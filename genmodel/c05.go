package main

import (
	"bytes"
	"fmt"
	"go/ast"
	"go/printer"
	"go/token"
	"strconv"
	"strings"
)

// C05: lintcmd/cache/cache.go (+ hash.go for HashSize)
//   - HashSize, hexSize, entrySize (constant expressions evaluated)
//   - putIndexEntry: the fmt.Sprintf format of the index entry and the order of its arguments
//   - get: length of the read buffer, the header byte tests (offset, byte), the slice offsets of
//     eid/eout/esize/etime (the successive re-slicings are folded into absolute offsets)
//   - shape facts of the protocol: order of copyFile/putIndexEntry in put, the O_TRUNC guard, the
//     last-byte protocol, open mode of the index entry, the size test of GetFile, the hash test of GetBytes.
func init() { register("C05", genC05) }

func c05src(fset *token.FileSet, n ast.Node) string {
	var b bytes.Buffer
	printer.Fprint(&b, fset, n)
	return strings.Join(strings.Fields(b.String()), " ")
}

type c05env map[string]int64

func (env c05env) eval(e ast.Expr) (int64, error) {
	switch e := e.(type) {
	case *ast.BasicLit:
		switch e.Kind {
		case token.INT:
			return strconv.ParseInt(e.Value, 0, 64)
		case token.CHAR:
			r, _, _, err := strconv.UnquoteChar(strings.Trim(e.Value, "'"), '\'')
			return int64(r), err
		}
	case *ast.Ident:
		if v, ok := env[e.Name]; ok {
			return v, nil
		}
		return 0, fmt.Errorf("unknown constant %s", e.Name)
	case *ast.ParenExpr:
		return env.eval(e.X)
	case *ast.BinaryExpr:
		a, err := env.eval(e.X)
		if err != nil {
			return 0, err
		}
		b, err := env.eval(e.Y)
		if err != nil {
			return 0, err
		}
		switch e.Op {
		case token.ADD:
			return a + b, nil
		case token.SUB:
			return a - b, nil
		case token.MUL:
			return a * b, nil
		}
	}
	return 0, fmt.Errorf("unsupported constant expression")
}

func c05const(f *ast.File, name string) ast.Expr {
	for _, d := range f.Decls {
		gd, ok := d.(*ast.GenDecl)
		if !ok || gd.Tok != token.CONST {
			continue
		}
		for _, s := range gd.Specs {
			vs := s.(*ast.ValueSpec)
			for i, n := range vs.Names {
				if n.Name == name && i < len(vs.Values) {
					return vs.Values[i]
				}
			}
		}
	}
	return nil
}

func c05bytes(s string) string {
	var items []string
	for _, c := range []byte(s) {
		items = append(items, strconv.Itoa(int(c)))
	}
	return coqList(items)
}

func c05bool(b bool) string {
	if b {
		return "true"
	}
	return "false"
}

// position (index in the statement list, recursively flattened by source offset) of the first node matching pred
func c05find(root ast.Node, pred func(ast.Node) bool) token.Pos {
	var pos token.Pos
	ast.Inspect(root, func(n ast.Node) bool {
		if n == nil || pos != token.NoPos {
			return false
		}
		if pred(n) {
			pos = n.Pos()
			return false
		}
		return true
	})
	return pos
}

func genC05(repo string) (map[string]string, error) {
	_, hf, err := parseFile(repo, "lintcmd/cache/hash.go")
	if err != nil {
		return nil, err
	}
	fset, cf, err := parseFile(repo, "lintcmd/cache/cache.go")
	if err != nil {
		return nil, err
	}
	env := c05env{}
	for _, c := range []struct {
		f    *ast.File
		name string
	}{{hf, "HashSize"}, {cf, "hexSize"}, {cf, "entrySize"}} {
		e := c05const(c.f, c.name)
		if e == nil {
			return nil, fmt.Errorf("constant %s not found", c.name)
		}
		v, err := env.eval(e)
		if err != nil {
			return nil, fmt.Errorf("constant %s: %v", c.name, err)
		}
		env[c.name] = v
	}

	// ---- putIndexEntry: entry := fmt.Sprintf(format, id, out, size, <time>)
	pie := findMethod(cf, "DiskCache", "putIndexEntry")
	if pie == nil {
		return nil, fmt.Errorf("putIndexEntry not found")
	}
	var format string
	var fargs []string
	ast.Inspect(pie.Body, func(n ast.Node) bool {
		as, ok := n.(*ast.AssignStmt)
		if !ok || len(as.Lhs) != 1 || len(as.Rhs) != 1 || format != "" {
			return true
		}
		if id, ok := as.Lhs[0].(*ast.Ident); !ok || id.Name != "entry" {
			return true
		}
		call, ok := as.Rhs[0].(*ast.CallExpr)
		if !ok || c05src(fset, call.Fun) != "fmt.Sprintf" || len(call.Args) < 1 {
			return true
		}
		lit, ok := call.Args[0].(*ast.BasicLit)
		if !ok {
			return true
		}
		format, _ = strconv.Unquote(lit.Value)
		for _, a := range call.Args[1:] {
			fargs = append(fargs, c05src(fset, a))
		}
		return true
	})
	if format == "" {
		return nil, fmt.Errorf("putIndexEntry: `entry := fmt.Sprintf(...)` not found")
	}
	var items []string
	nverbs := 0
	for i := 0; i < len(format); {
		if format[i] != '%' {
			j := i
			for j < len(format) && format[j] != '%' {
				j++
			}
			items = append(items, "FLit "+c05bytes(format[i:j]))
			i = j
			continue
		}
		j := i + 1
		for j < len(format) && format[j] >= '0' && format[j] <= '9' {
			j++
		}
		if j >= len(format) {
			return nil, fmt.Errorf("putIndexEntry: dangling %% in format")
		}
		switch {
		case format[j] == 'x' && j == i+1:
			items = append(items, "FHex")
		case format[j] == 'd' && j > i+1 && format[i+1] != '0':
			items = append(items, "FDec "+format[i+1:j])
		default:
			return nil, fmt.Errorf("putIndexEntry: unsupported verb %q", format[i:j+1])
		}
		nverbs++
		i = j + 1
	}
	if nverbs != len(fargs) {
		return nil, fmt.Errorf("putIndexEntry: %d verbs, %d arguments", nverbs, len(fargs))
	}
	var argidx []string
	for _, a := range fargs {
		switch {
		case a == "id":
			argidx = append(argidx, "0%nat")
		case a == "out":
			argidx = append(argidx, "1%nat")
		case a == "size":
			argidx = append(argidx, "2%nat")
		case strings.Contains(a, "UnixNano"):
			argidx = append(argidx, "3%nat")
		default:
			return nil, fmt.Errorf("putIndexEntry: unrecognised Sprintf argument %q", a)
		}
	}
	// open mode and truncate-after-write
	indexNoTrunc := false
	{
		modeOK, truncAfter := false, token.NoPos
		var writePos token.Pos
		ast.Inspect(pie.Body, func(n ast.Node) bool {
			switch n := n.(type) {
			case *ast.AssignStmt:
				if len(n.Lhs) == 1 && c05src(fset, n.Lhs[0]) == "mode" {
					modeOK = c05src(fset, n.Rhs[0]) == "os.O_WRONLY | os.O_CREATE"
				}
				if len(n.Rhs) == 1 && strings.HasPrefix(c05src(fset, n.Rhs[0]), "f.WriteString(entry)") {
					writePos = n.Pos()
				}
				if len(n.Rhs) == 1 && c05src(fset, n.Rhs[0]) == "f.Truncate(int64(len(entry)))" {
					truncAfter = n.Pos()
				}
			}
			return true
		})
		noOther := !strings.Contains(c05src(fset, pie.Body), "O_TRUNC")
		indexNoTrunc = modeOK && noOther && writePos != token.NoPos && truncAfter > writePos
	}

	// ---- get
	get := findMethod(cf, "DiskCache", "get")
	if get == nil {
		return nil, fmt.Errorf("get not found")
	}
	readLen := int64(-1)
	var header []string
	var slices []string
	base := int64(0)
	lengthExact, checksID, rejectsNeg := false, false, 0
	var tooLong, incomplete bool
	var evalErr error
	ast.Inspect(get.Body, func(n ast.Node) bool {
		switch n := n.(type) {
		case *ast.AssignStmt:
			// entry := make([]byte, entrySize+1)
			if len(n.Lhs) == 1 && len(n.Rhs) == 1 && c05src(fset, n.Lhs[0]) == "entry" {
				if call, ok := n.Rhs[0].(*ast.CallExpr); ok && c05src(fset, call.Fun) == "make" && len(call.Args) == 2 {
					v, err := env.eval(call.Args[1])
					if err != nil {
						evalErr = err
					}
					readLen = v
				}
			}
			// eX, entry := entry[a:b], entry[c:]
			if len(n.Lhs) == 2 && len(n.Rhs) == 2 && c05src(fset, n.Lhs[1]) == "entry" {
				s0, ok0 := n.Rhs[0].(*ast.SliceExpr)
				s1, ok1 := n.Rhs[1].(*ast.SliceExpr)
				if ok0 && ok1 && c05src(fset, s0.X) == "entry" && c05src(fset, s1.X) == "entry" && s0.Low != nil && s0.High != nil && s1.Low != nil && s1.High == nil {
					lo, e1 := env.eval(s0.Low)
					hi, e2 := env.eval(s0.High)
					nb, e3 := env.eval(s1.Low)
					if e1 != nil || e2 != nil || e3 != nil {
						evalErr = fmt.Errorf("get: slice bounds not constant")
					}
					slices = append(slices, fmt.Sprintf("(%d, %d)", base+lo, hi-lo))
					base += nb
				}
			}
		case *ast.IfStmt:
			src := c05src(fset, n.Cond)
			if strings.HasPrefix(src, "entry[0] != ") {
				// chain of ||
				var walk func(e ast.Expr)
				walk = func(e ast.Expr) {
					if be, ok := e.(*ast.BinaryExpr); ok && be.Op == token.LOR {
						walk(be.X)
						walk(be.Y)
						return
					}
					be, ok := e.(*ast.BinaryExpr)
					if !ok || be.Op != token.NEQ {
						evalErr = fmt.Errorf("get: header test %q unrecognised", c05src(fset, e))
						return
					}
					ix, ok := be.X.(*ast.IndexExpr)
					if !ok || c05src(fset, ix.X) != "entry" {
						evalErr = fmt.Errorf("get: header test %q unrecognised", c05src(fset, e))
						return
					}
					off, e1 := env.eval(ix.Index)
					ch, e2 := env.eval(be.Y)
					if e1 != nil || e2 != nil {
						evalErr = fmt.Errorf("get: header test %q not constant", c05src(fset, e))
						return
					}
					header = append(header, fmt.Sprintf("(%d, %d)", off, ch))
				}
				walk(n.Cond)
				if base != 0 {
					evalErr = fmt.Errorf("get: header test after re-slicing")
				}
			}
			if strings.HasSuffix(src, "n > entrySize") {
				tooLong = true
			}
			if src == "n < entrySize" {
				incomplete = true
			}
			if src == "buf != id" {
				checksID = true
			}
			if src == "size < 0" || src == "tm < 0" {
				rejectsNeg++
			}
		}
		return true
	})
	if evalErr != nil {
		return nil, evalErr
	}
	if readLen < 0 || len(header) == 0 || len(slices) != 4 {
		return nil, fmt.Errorf("get: unrecognised shape (read buffer %d, %d header tests, %d slices)", readLen, len(header), len(slices))
	}
	// the chain  n > entrySize -> miss ; err != ErrUnexpectedEOF -> miss ; n < entrySize -> miss
	lengthExact = tooLong && incomplete && strings.Contains(c05src(fset, get.Body), "err != io.ErrUnexpectedEOF")

	// ---- put: copyFile (with error return) before putIndexEntry
	put := findMethod(cf, "DiskCache", "put")
	if put == nil {
		return nil, fmt.Errorf("put not found")
	}
	dataBeforeIndex := false
	{
		var copyPos, idxPos token.Pos
		copyGuarded := false
		for _, st := range put.Body.List {
			if is, ok := st.(*ast.IfStmt); ok && is.Init != nil && strings.Contains(c05src(fset, is.Init), "c.copyFile(file, out, size)") &&
				c05src(fset, is.Cond) == "err != nil" && len(is.Body.List) == 1 {
				if _, ok := is.Body.List[0].(*ast.ReturnStmt); ok {
					copyGuarded = true
					copyPos = is.Pos()
				}
			}
			if rs, ok := st.(*ast.ReturnStmt); ok && strings.Contains(c05src(fset, rs), "c.putIndexEntry(id, out, size") {
				idxPos = rs.Pos()
			}
		}
		n := strings.Count(c05src(fset, put.Body), "putIndexEntry")
		dataBeforeIndex = copyGuarded && idxPos > copyPos && copyPos != token.NoPos && n == 1
	}

	// ---- copyFile
	cp := findMethod(cf, "DiskCache", "copyFile")
	if cp == nil {
		return nil, fmt.Errorf("copyFile not found")
	}
	truncOnlyIfLarger, skipOnlyIfHashOK, lastByte := false, false, false
	{
		body := c05src(fset, cp.Body)
		modeInit := ""
		truncGuards := 0
		goodGuard := false
		ast.Inspect(cp.Body, func(n ast.Node) bool {
			switch n := n.(type) {
			case *ast.AssignStmt:
				if len(n.Lhs) == 1 && c05src(fset, n.Lhs[0]) == "mode" && n.Tok == token.DEFINE {
					modeInit = c05src(fset, n.Rhs[0])
				}
			case *ast.IfStmt:
				if strings.Contains(c05src(fset, n.Body), "O_TRUNC") {
					truncGuards++
					if c05src(fset, n.Cond) == "err == nil && info.Size() > size" && c05src(fset, n.Body) == "{ mode |= os.O_TRUNC }" {
						goodGuard = true
					}
				}
			}
			return true
		})
		truncOnlyIfLarger = modeInit == "os.O_RDWR | os.O_CREATE" && truncGuards == 1 && goodGuard && strings.Count(body, "O_TRUNC") == 1
		// early return nil only inside  if err == nil && info.Size() == size { ... if out == out2 { return nil } }
		// and in the size == 0 branch after the open
		nretnil := 0
		okSkip := false
		ast.Inspect(cp.Body, func(n ast.Node) bool {
			if is, ok := n.(*ast.IfStmt); ok {
				if c05src(fset, is.Cond) == "err == nil && info.Size() == size" {
					ast.Inspect(is.Body, func(m ast.Node) bool {
						if js, ok := m.(*ast.IfStmt); ok && c05src(fset, js.Cond) == "out == out2" && c05src(fset, js.Body) == "{ return nil }" {
							okSkip = true
						}
						return true
					})
				}
			}
			if rs, ok := n.(*ast.ReturnStmt); ok && c05src(fset, rs) == "return nil" {
				nretnil++
			}
			return true
		})
		// return nil: hash-ok skip, size == 0, final
		skipOnlyIfHashOK = okSkip && nretnil == 3 && strings.Contains(body, "if size == 0 {")
		// last byte protocol: CopyN(w, file, size-1) < file.Read(buf) < bytes.Equal(sum, out[:]) < f.Write(buf)
		p1 := c05find(cp.Body, func(n ast.Node) bool {
			c, ok := n.(*ast.CallExpr)
			return ok && c05src(fset, c) == "io.CopyN(w, file, size-1)"
		})
		p2 := c05find(cp.Body, func(n ast.Node) bool {
			c, ok := n.(*ast.CallExpr)
			return ok && c05src(fset, c) == "file.Read(buf)"
		})
		p3 := c05find(cp.Body, func(n ast.Node) bool {
			is, ok := n.(*ast.IfStmt)
			return ok && c05src(fset, is.Cond) == "!bytes.Equal(sum, out[:])" && strings.Contains(c05src(fset, is.Body), "return")
		})
		p4 := c05find(cp.Body, func(n ast.Node) bool {
			c, ok := n.(*ast.CallExpr)
			return ok && c05src(fset, c) == "f.Write(buf)"
		})
		lastByte = p1 != token.NoPos && p1 < p2 && p2 < p3 && p3 < p4 &&
			strings.Contains(body, "w := io.MultiWriter(f, h)") && strings.Contains(body, "buf := make([]byte, 1)") &&
			strings.Count(body, "f.Write(") == 1 && strings.Count(body, "io.Copy") == 2
	}

	// ---- GetFile / GetBytes
	gf := findFunc(cf, "GetFile")
	gb := findFunc(cf, "GetBytes")
	if gf == nil || gb == nil {
		return nil, fmt.Errorf("GetFile/GetBytes not found")
	}
	checksSize, checksHash := false, false
	ast.Inspect(gf.Body, func(n ast.Node) bool {
		if is, ok := n.(*ast.IfStmt); ok && c05src(fset, is.Cond) == "info.Size() != entry.Size" && len(is.Body.List) == 1 {
			if rs, ok := is.Body.List[0].(*ast.ReturnStmt); ok && strings.HasPrefix(c05src(fset, rs), `return "", Entry{}, &entryNotFoundError`) {
				checksSize = true
			}
		}
		return true
	})
	// the stat must be on the file that is returned
	checksSize = checksSize && strings.Contains(c05src(fset, gf.Body), "file = c.OutputFile(entry.OutputID) info, err := os.Stat(file)")
	ast.Inspect(gb.Body, func(n ast.Node) bool {
		if is, ok := n.(*ast.IfStmt); ok && c05src(fset, is.Cond) == "sha256.Sum256(data) != entry.OutputID" && len(is.Body.List) == 1 {
			if rs, ok := is.Body.List[0].(*ast.ReturnStmt); ok && strings.HasPrefix(c05src(fset, rs), "return nil, entry, &entryNotFoundError") {
				checksHash = true
			}
		}
		return true
	})

	var b strings.Builder
	b.WriteString("From Coq Require Import List NArith Bool.\nImport ListNotations.\nRequire Import Verif.Model.C05_Types.\nOpen Scope N_scope.\n\n")
	b.WriteString("(* lintcmd/cache/cache.go + hash.go: constants, entry format (putIndexEntry), header tests and slices (get) *)\n")
	fmt.Fprintf(&b, "Definition gen_layout : layout := mkLayout %d %d %d %d\n  %s\n  %s\n  %s\n  %s.\n\n",
		env["HashSize"], env["hexSize"], env["entrySize"], readLen,
		coqList(items), coqList(argidx), coqList(header), coqList(slices))
	b.WriteString("(* shape facts of put / copyFile / putIndexEntry / GetFile / GetBytes / get *)\n")
	fmt.Fprintf(&b, "Definition gen_protocol : protocol := mkProtocol %s %s %s %s %s %s %s %s %s %s.\n",
		c05bool(dataBeforeIndex), c05bool(truncOnlyIfLarger), c05bool(skipOnlyIfHashOK), c05bool(lastByte), c05bool(indexNoTrunc),
		c05bool(checksSize), c05bool(checksHash), c05bool(lengthExact), c05bool(checksID), c05bool(rejectsNeg == 2))
	return map[string]string{"C05_CacheLayout.v": b.String()}, nil
}
