package a

import "example.com/m/b"

func F() bool {
	return b.Get().Err() == nil
}
