package c

type E struct{}

func (*E) Error() string { return "" }

type T struct{ N int }

func (t T) Err() error {
	if t.N > 1 {
		println(t.N)
	}
	return &E{}
}
