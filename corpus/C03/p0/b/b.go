package b

import "example.com/m/c"

func Get() c.T { return c.T{} }
