package a

import "strings"

func F() {
	defer strings.NewReplacer("a")
	go strings.NewReplacer("a", "b", "c")
	f := strings.NewReplacer
	f("x")
	xs := []string{"a", "b", "c"}
	_ = strings.NewReplacer(xs[:3]...)
}
