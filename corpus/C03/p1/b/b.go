package b

type G[T any] struct {
	// Deprecated: don't use.
	Old int
	V   T
}
