module example.com/m

go 1.21
