package a

import "example.com/m/b"

var X = b.G[int]{Old: 1}
