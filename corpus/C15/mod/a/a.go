// Package a: minimised functions on which the nilness analysis was (or could be) wrong. Kept as a corpus:
// every check run analyses them with the real analysis and the model and runs them (driver: ../main.go).
package a

import "unsafe"

var (
	GInt int
	GAny any
)

func H() {}

// F9: uintptr -> unsafe.Pointer conversions can yield nil.
func ConvPtr(u uintptr) unsafe.Pointer { return unsafe.Pointer(u) }

func ConvIface(u uintptr) any { return unsafe.Pointer(u) }

// A loaded interface value may hold a typed nil.
func LoadIface(p *any, b bool) any {
	if b {
		return *p
	}
	return 1
}

func LoadGlobalIface(b bool) any {
	if b {
		return GAny
	}
	return 2
}

func LoadField(t *struct{ X any }, b bool) any {
	if b {
		return t.X
	}
	return 3
}

// The default branch of a type switch yields the switched-over value itself.
func SwitchDefault(i any) any {
	switch v := i.(type) {
	case int:
		return 0
	default:
		return v
	}
}

func SwitchDefaultTyped() any {
	var p *int
	var i any = p
	switch v := i.(type) {
	case int:
		return 0
	default:
		return v
	}
}

func SwitchDefault2(i any, b bool) any {
	switch v := i.(type) {
	case int:
		return 5
	default:
		if b {
			return v
		}
		return 1
	}
}

// Functions and globals are never nil, even when their state vector entry was never written.
func GapFunc(b bool) func() {
	var i any = H
	_ = i
	p := new(int)
	_ = p
	if b {
		return H
	}
	return nil
}

func GapGlobal(b bool) *int {
	var i any = &GInt
	_ = i
	p := new(int)
	_ = p
	if b {
		return &GInt
	}
	return nil
}

// An infeasible branch must not poison the address of a global on the feasible paths.
func GlobalCmp(b bool) *int {
	if b {
		if &GInt != nil {
			panic("always")
		}
	}
	return &GInt
}

// Phis are parallel copies.
func Swap(n int) *int {
	var a *int
	b := new(int)
	for i := 0; i < n; i++ {
		a, b = b, a
	}
	return b
}

func SwapIface(n int) any {
	var a any
	var b any = 1
	for i := 0; i < n; i++ {
		a, b = b, a
	}
	return b
}

func Rotate(n int) *int {
	var a *int
	b := new(int)
	c := new(int)
	for i := 0; i < n; i++ {
		a, b, c = c, a, b
	}
	return c
}

// Sound claims that must stay claims (regression guards for precision): never nil / always nil.
func NeverNilPtr() *int          { return new(int) }
func AlwaysNilPtr() *int         { return nil }
func TypedNil() any              { return (*int)(nil) }
func SliceOfArray() []int        { var x [4]int; return x[:] }
func AppendNonNil() []int        { return append([]int{1}, 2) }
func NilCheck(p *int) *int {
	if p == nil {
		return new(int)
	}
	return p
}

// Regression guards for transfer rules whose weakening is sound but whose strengthening is not.
func CommaOk(i any) *int {
	p, _ := i.(*int)
	return p
}

func AppendArg(s []int) []int { return append(s) }

func AppendGrow(s []int) []int { return append(s, 1) }

func MaybeCallee(b bool) *int {
	if b {
		return nil
	}
	return new(int)
}

func CallMaybe(b bool) *int { return MaybeCallee(b) }

func CallMaybeIface(b bool) any { return MaybeCallee(b) }

func LoadPtr(pp **int) *int { return *pp }

func MapElem(m map[int]*int) *int { return m[1] }

func PhiJoin(b bool, p *int) *int {
	q := new(int)
	if b {
		q = p
	}
	return q
}

func SliceTail(s []int, n int) []int { return s[n:] }

func AssertIface(i any) error { return i.(error) }

// Precision guards: a successful dereference / store / field access proves the operand non-nil.
func DerefThenReturn(p *int) *int {
	_ = *p
	return p
}

func StoreThenReturn(p *int) *int {
	*p = 1
	return p
}

func FieldThenReturn(t *struct{ X int }) *struct{ X int } {
	t.X = 2
	return t
}

// ---- a loop body that is a single basic block and its own successor, with loop-carried nilness
type E struct{}

func (*E) Error() string { return "e" }

// StopAfter returns a callback that answers true on its k-th call.
func StopAfter(k int) func() bool {
	calls := 0
	return func() bool { calls++; return calls >= k }
}

func Drain(stop func() bool) error {
	var cur error = &E{}
	for {
		prev := cur
		cur = nil
		if stop() {
			return prev
		}
	}
}

func DrainPtr(stop func() bool) *int {
	cur := new(int)
	for {
		prev := cur
		cur = nil
		if stop() {
			return prev
		}
	}
}

func RotateLoop(stop func() bool) *int {
	a, b, c := new(int), (*int)(nil), new(int)
	for {
		a, b, c = c, a, b
		if stop() {
			return a
		}
	}
}

func FillLoop(stop func() bool) []int {
	var cur []int
	for {
		prev := cur
		cur = []int{1}
		if stop() {
			return prev
		}
	}
}

// ---- generic functions with pointer-like type-parameter results and their non-generic callers
func Pick[T ~*int | ~[]byte](x any, d T) T {
	switch v := x.(type) {
	case T:
		return v
	}
	return d
}

func PickNew[T ~*int](x any) T {
	switch v := x.(type) {
	case T:
		return v
	}
	return T(new(int))
}

func AssertT[T ~*int | ~[]byte](x any) T { return x.(T) }

func ZeroT[T ~*int | ~[]byte]() T { return *new(T) }

func Unwrap(x any) *int { return Pick[*int](x, new(int)) }

func Boxed(x any) any { return Pick[*int](x, new(int)) }

func UnwrapNew(x any) *int { return PickNew[*int](x) }

func BoxedNew(x any) any { return PickNew[*int](x) }

func UnwrapAssert(x any) *int { return AssertT[*int](x) }

func ZeroPtr() *int { return ZeroT[*int]() }

// A type parameter without type terms (comparable / any / methods) can be instantiated with an interface or pointer.
func First[T comparable](xs []T) T { return xs[0] }

func FirstErr(errs []error) error { return First(errs) }

// Several returning blocks hanging off a flag: a refinement made in one must not leak into the others.
type DErr struct{ msg string }

func (e *DErr) Error() string { return e.msg }

func Describe(err error, verbose bool) error {
	if verbose {
		_ = err.(*DErr).msg
		return err
	}
	return err
}

func DescribePtr(p *int, verbose bool) *int {
	if verbose {
		_ = *p
		return p
	}
	return p
}

func DescribeMode(m map[int]*int, mode int) map[int]*int {
	if mode == 1 {
		m[1] = nil
		return m
	}
	if mode == 2 {
		return m
	}
	return m
}

// A type-switch clause with several types binds the interface value itself.
type U struct{ Y int }

func Multi(x any) any {
	switch v := x.(type) {
	case *int, *U:
		return v
	}
	return 1
}

func MultiTyped() any {
	var p *int
	var x any = p
	switch v := x.(type) {
	case *int, *U:
		return v
	}
	return nil
}

func MultiErr(x any, b bool) any {
	switch v := x.(type) {
	case error, *U:
		if b {
			return v
		}
	}
	return 2
}

// uintptr -> unsafe.Pointer through a type parameter
func ConvT[T ~uintptr](x T) unsafe.Pointer { return unsafe.Pointer(x) }

func ConvTCaller(u uintptr) unsafe.Pointer { return ConvT(u) }

func ConvTIface(u uintptr) any { return ConvT(u) }

func MultiNil(x any) any {
	switch v := x.(type) {
	case nil, *int:
		return v
	}
	return 3
}

func ConvM[T ~uintptr | ~unsafe.Pointer](x T) unsafe.Pointer { return unsafe.Pointer(x) }

func ConvMCaller(u uintptr) unsafe.Pointer { return ConvM(u) }

// a == b between two non-constant values says nothing about a on the else edge.
var defaultErr = &DErr{msg: "default"}

func Repair(err error) error {
	if err == error(defaultErr) {
		return &DErr{msg: "new"}
	}
	return err
}

func RepairPtr(p *int) *int {
	q := new(int)
	if p == q {
		return q
	}
	return p
}

func RepairNeq(p *int) *int {
	q := &GInt
	if q != p {
		return p
	}
	return q
}
