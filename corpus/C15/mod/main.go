package main

import (
	"fmt"
	"reflect"

	"example.com/nilgen/a"
	"example.com/nilgen/b"
)

type obs struct{ returned, outerNil, outerNon, innerNil, innerNon int }

var table = map[string]*obs{}

func record(name string, k int, outerNil bool, iface bool, v any) {
	key := fmt.Sprintf("%s %d", name, k)
	o := table[key]
	if o == nil {
		o = &obs{}
		table[key] = o
	}
	o.returned++
	if outerNil {
		o.outerNil++
		return
	}
	o.outerNon++
	if !iface {
		return
	}
	rv := reflect.ValueOf(v)
	switch rv.Kind() {
	case reflect.Ptr, reflect.Map, reflect.Slice, reflect.Chan, reflect.Func, reflect.UnsafePointer:
		if rv.IsNil() {
			o.innerNil++
			return
		}
	}
	o.innerNon++
}

func try(f func()) {
	defer func() { recover() }()
	f()
}

func main() {
	ifaces := []any{nil, (*int)(nil), new(int), 3, []int(nil)}
	bools := []bool{false, true}
	for _, u := range []uintptr{0, 4096} {
		try(func() { r := a.ConvPtr(u); record("a.ConvPtr", 0, r == nil, false, r) })
		try(func() { r := a.ConvIface(u); record("a.ConvIface", 0, r == nil, true, r) })
		try(func() { r := b.B0(u); record("b.B0", 0, r == nil, true, r) })
	}
	for _, g := range ifaces {
		a.GAny = g
		for _, bb := range bools {
			for _, i := range ifaces {
				i := i
				try(func() { r := a.LoadIface(&i, bb); record("a.LoadIface", 0, r == nil, true, r) })
				try(func() { r := a.LoadField(&struct{ X any }{i}, bb); record("a.LoadField", 0, r == nil, true, r) })
				try(func() { r := a.SwitchDefault2(i, bb); record("a.SwitchDefault2", 0, r == nil, true, r) })
				try(func() { r := a.SwitchDefault(i); record("a.SwitchDefault", 0, r == nil, true, r) })
			}
			try(func() { r := a.LoadIface(nil, bb); record("a.LoadIface", 0, r == nil, true, r) })
			try(func() { r := a.LoadGlobalIface(bb); record("a.LoadGlobalIface", 0, r == nil, true, r) })
			try(func() { r := a.GapFunc(bb); record("a.GapFunc", 0, r == nil, false, nil) })
			try(func() { r := a.GapGlobal(bb); record("a.GapGlobal", 0, r == nil, false, r) })
			try(func() { r := a.GlobalCmp(bb); record("a.GlobalCmp", 0, r == nil, false, r) })
		}
	}
	try(func() { r := a.SwitchDefaultTyped(); record("a.SwitchDefaultTyped", 0, r == nil, true, r) })
	for n := 0; n < 4; n++ {
		try(func() { r := a.Swap(n); record("a.Swap", 0, r == nil, false, r) })
		try(func() { r := b.UseSwap(n); record("b.UseSwap", 0, r == nil, false, r) })
		try(func() { r := a.SwapIface(n); record("a.SwapIface", 0, r == nil, true, r) })
		try(func() { r := a.Rotate(n); record("a.Rotate", 0, r == nil, false, r) })
	}
	try(func() { r := a.NeverNilPtr(); record("a.NeverNilPtr", 0, r == nil, false, r) })
	try(func() { r := a.AlwaysNilPtr(); record("a.AlwaysNilPtr", 0, r == nil, false, r) })
	try(func() { r := a.TypedNil(); record("a.TypedNil", 0, r == nil, true, r) })
	try(func() { r := a.SliceOfArray(); record("a.SliceOfArray", 0, r == nil, false, r) })
	try(func() { r := a.AppendNonNil(); record("a.AppendNonNil", 0, r == nil, false, r) })
	for _, p := range []*int{nil, new(int)} {
		try(func() { r := a.NilCheck(p); record("a.NilCheck", 0, r == nil, false, r) })
	}
	for _, i := range append(ifaces, error(nil), fmt.Errorf("e")) {
		i := i
		try(func() { r := a.CommaOk(i); record("a.CommaOk", 0, r == nil, false, r) })
		try(func() { r := a.AssertIface(i); record("a.AssertIface", 0, r == nil, true, r) })
	}
	for _, s := range [][]int{nil, {}, {1, 2}} {
		try(func() { r := a.AppendArg(s); record("a.AppendArg", 0, r == nil, false, r) })
		try(func() { r := a.AppendGrow(s); record("a.AppendGrow", 0, r == nil, false, r) })
		for n := 0; n < 3; n++ {
			try(func() { r := a.SliceTail(s, n); record("a.SliceTail", 0, r == nil, false, r) })
		}
	}
	for _, bb := range bools {
		try(func() { r := a.MaybeCallee(bb); record("a.MaybeCallee", 0, r == nil, false, r) })
		try(func() { r := a.CallMaybe(bb); record("a.CallMaybe", 0, r == nil, false, r) })
		try(func() { r := a.CallMaybeIface(bb); record("a.CallMaybeIface", 0, r == nil, true, r) })
		for _, p := range []*int{nil, new(int)} {
			try(func() { r := a.PhiJoin(bb, p); record("a.PhiJoin", 0, r == nil, false, r) })
		}
	}
	for _, pp := range []**int{nil, new(*int), func() **int { p := new(int); return &p }()} {
		try(func() { r := a.LoadPtr(pp); record("a.LoadPtr", 0, r == nil, false, r) })
	}
	for _, m := range []map[int]*int{nil, {}, {1: nil}, {1: new(int)}} {
		try(func() { r := a.MapElem(m); record("a.MapElem", 0, r == nil, false, r) })
	}
	for _, p := range []*int{nil, new(int)} {
		try(func() { r := a.DerefThenReturn(p); record("a.DerefThenReturn", 0, r == nil, false, r) })
		try(func() { r := a.StoreThenReturn(p); record("a.StoreThenReturn", 0, r == nil, false, r) })
	}
	for _, t := range []*struct{ X int }{nil, {}} {
		try(func() { r := a.FieldThenReturn(t); record("a.FieldThenReturn", 0, r == nil, false, r) })
	}
	for k := 1; k <= 4; k++ {
		try(func() { r := a.Drain(a.StopAfter(k)); record("a.Drain", 0, r == nil, true, r) })
		try(func() { r := a.DrainPtr(a.StopAfter(k)); record("a.DrainPtr", 0, r == nil, false, r) })
		try(func() { r := a.RotateLoop(a.StopAfter(k)); record("a.RotateLoop", 0, r == nil, false, r) })
		try(func() { r := a.FillLoop(a.StopAfter(k)); record("a.FillLoop", 0, r == nil, false, r) })
	}
	for _, x := range append(ifaces, []byte(nil), []byte{1}) {
		x := x
		for _, d := range []*int{nil, new(int)} {
			try(func() { r := a.Pick[*int](x, d); record("a.Pick", 0, r == nil, false, r) })
		}
		try(func() { r := a.Pick[[]byte](x, []byte{2}); record("a.Pick", 0, r == nil, false, r) })
		try(func() { r := a.PickNew[*int](x); record("a.PickNew", 0, r == nil, false, r) })
		try(func() { r := a.AssertT[*int](x); record("a.AssertT", 0, r == nil, false, r) })
		try(func() { r := a.AssertT[[]byte](x); record("a.AssertT", 0, r == nil, false, r) })
		try(func() { r := a.Unwrap(x); record("a.Unwrap", 0, r == nil, false, r) })
		try(func() { r := a.Boxed(x); record("a.Boxed", 0, r == nil, true, r) })
		try(func() { r := a.UnwrapNew(x); record("a.UnwrapNew", 0, r == nil, false, r) })
		try(func() { r := a.BoxedNew(x); record("a.BoxedNew", 0, r == nil, true, r) })
		try(func() { r := a.UnwrapAssert(x); record("a.UnwrapAssert", 0, r == nil, false, r) })
	}
	try(func() { r := a.ZeroT[*int](); record("a.ZeroT", 0, r == nil, false, r) })
	try(func() { r := a.ZeroT[[]byte](); record("a.ZeroT", 0, r == nil, false, r) })
	try(func() { r := a.ZeroPtr(); record("a.ZeroPtr", 0, r == nil, false, r) })
	for _, e := range []error{nil, fmt.Errorf("x")} {
		try(func() { r := a.First([]error{e}); record("a.First", 0, r == nil, true, r) })
		try(func() { r := a.FirstErr([]error{e}); record("a.FirstErr", 0, r == nil, true, r) })
	}
	try(func() { r := a.First([]*int{nil}); record("a.First", 0, r == nil, false, r) })
	for _, bb := range bools {
		for _, e := range []error{nil, &a.DErr{}, fmt.Errorf("x")} {
			try(func() { r := a.Describe(e, bb); record("a.Describe", 0, r == nil, true, r) })
		}
		for _, p := range []*int{nil, new(int)} {
			try(func() { r := a.DescribePtr(p, bb); record("a.DescribePtr", 0, r == nil, false, r) })
		}
	}
	for mode := 0; mode < 3; mode++ {
		for _, m := range []map[int]*int{nil, {}} {
			try(func() { r := a.DescribeMode(m, mode); record("a.DescribeMode", 0, r == nil, false, r) })
		}
	}
	for _, x := range append(ifaces, (*a.U)(nil), &a.U{}, fmt.Errorf("e")) {
		x := x
		try(func() { r := a.Multi(x); record("a.Multi", 0, r == nil, true, r) })
		for _, bb := range bools {
			try(func() { r := a.MultiErr(x, bb); record("a.MultiErr", 0, r == nil, true, r) })
		}
	}
	for _, x := range ifaces {
		x := x
		try(func() { r := a.MultiNil(x); record("a.MultiNil", 0, r == nil, true, r) })
	}
	try(func() { r := a.MultiTyped(); record("a.MultiTyped", 0, r == nil, true, r) })
	for _, u := range []uintptr{0, 4096} {
		try(func() { r := a.ConvM(u); record("a.ConvM", 0, r == nil, false, r) })
		try(func() { r := a.ConvMCaller(u); record("a.ConvMCaller", 0, r == nil, false, r) })
		try(func() { r := a.ConvT(u); record("a.ConvT", 0, r == nil, false, r) })
		try(func() { r := a.ConvTCaller(u); record("a.ConvTCaller", 0, r == nil, false, r) })
		try(func() { r := a.ConvTIface(u); record("a.ConvTIface", 0, r == nil, true, r) })
	}
	for _, e := range []error{nil, &a.DErr{}, fmt.Errorf("x")} {
		try(func() { r := a.Repair(e); record("a.Repair", 0, r == nil, true, r) })
	}
	for _, p := range []*int{nil, new(int), &a.GInt} {
		try(func() { r := a.RepairPtr(p); record("a.RepairPtr", 0, r == nil, false, r) })
		try(func() { r := a.RepairNeq(p); record("a.RepairNeq", 0, r == nil, false, r) })
	}
	for key, o := range table {
		fmt.Println(key, o.returned, o.outerNil, o.outerNon, o.innerNil, o.innerNon)
	}
}
