package c

import (
	"example.com/nilgen/a"
	"example.com/nilgen/b"
)

func C_a_SwapIface_0() bool { r := a.SwapIface(1); return r == nil }
func C_a_ConvIface_0() bool { r := a.ConvIface(0); return r == nil }
func C_a_SwitchDefault_0() bool { r := a.SwitchDefault(nil); return r == nil }
func C_a_TypedNil_0() bool { r := a.TypedNil(); return r == nil }
func C_b_B0_0() bool { r := b.B0(0); return r == nil }
func C_a_CallMaybeIface_0() bool { r := a.CallMaybeIface(true); return r == nil }
func C_a_Drain_0() bool { r := a.Drain(a.StopAfter(2)); return r == nil }
func C_a_Boxed_0() bool { r := a.Boxed(nil); return r == nil }
func C_a_BoxedNew_0() bool { r := a.BoxedNew(nil); return r == nil }
func C_a_First_0() bool { r := a.First([]error{nil}); return r == nil }
func C_a_Describe_0() bool { r := a.Describe(nil, false); return r == nil }
func C_a_MultiTyped_0() bool { r := a.MultiTyped(); return r == nil }
func C_a_ConvTIface_0() bool { r := a.ConvTIface(0); return r == nil }
func C_a_Repair_0() bool { r := a.Repair(nil); return r == nil }
