module example.com/nilgen

go 1.22
