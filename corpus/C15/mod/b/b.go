package b

import "example.com/nilgen/a"

// Cross-package use of exported facts.
func B0(u uintptr) any { return a.ConvIface(u) }

func UseSwap(n int) *int { return a.Swap(n) }
