package main

// Order of evaluation: every statement below is built from tr(k) (emits k, returns k), so the order of
// the calls required by the specification (lexical left to right) is visible in the trace.

func tr(k int) int {
	emit(9, k)
	return k
}

type P struct{ a, b, c int }

func (p P) M(x int) int   { emit(8, p.a); return p.a + x }
func (p *P) PM(x int) int { emit(7, p.a); p.a += x; return p.a }

func mkP(k int) P   { emit(6, k); return P{k, k, k} }
func mkPP(k int) *P { emit(5, k); return &P{k, k, k} }
func mkS(k int) []int {
	emit(4, k)
	return []int{k, k + 1, k + 2, k + 3}
}
func mkM(k int) map[int]int {
	emit(3, k)
	return map[int]int{}
}
func mkF(k int) func(int) int {
	emit(2, k)
	return func(x int) int { emit(1, x); return x + k }
}

func F1(x int) (int, int, int) {
	m := mkM(0)
	m[tr(1)] = tr(2)
	m[tr(3)] += tr(4)
	arr := [...]int{2: tr(5), 0: tr(6)}
	p := P{b: tr(7), a: tr(8)}
	return len(m), arr[0] + arr[2], p.a*10 + p.b
}

func F2(x int) (int, int) {
	s := mkS(10)
	var a, b [3]int
	a[tr(1)], b[tr(2)] = tr(3), tr(4)
	t := s[tr(0):tr(2):tr(3)]
	*mkPP(1) = mkP(2)
	mkPP(3).a += tr(5)
	return a[1] + b[2] + len(t) + cap(t), mkF(1)(tr(6)) + mkF(2)(tr(7))
}

func F3(x int) (int, int, string) {
	f := mkP(tr(1)).M
	g := mkPP(tr(2)).PM
	r := g(tr(3)) + f(tr(4))
	defer mkP(tr(5)).M(tr(6))
	defer mkF(tr(7))(tr(8))
	s := string(rune('a'+tr(1))) + string(rune('a'+tr(2))) + string(rune('a'+tr(3)))
	return r, func() int { return tr(9) }() + tr(0), s
}

func F4(x int) (int, bool, int) {
	mp := map[int]int{tr(1): tr(2), tr(3): tr(4)}
	q := append(mkS(tr(5)), mkS(tr(6))...)
	n := 0
	for i := range mkS(tr(7))[tr(1):] {
		n += i
	}
	switch y := any(mkP(tr(8))).(type) {
	case P:
		n += y.a
	}
	return len(mp) + len(q) + n, mkP(tr(1)) == mkP(tr(2)), int(int8(tr(3))) + min(tr(4), tr(5)) + max(tr(6), tr(7))
}

func two(k int) (int, int) { emit(0, k); return k, k + 1 }

func F5(x int) (int, int, int) {
	var a [4]int
	a[tr(0)], a[tr(1)] = two(tr(2))
	i := 0
	i, a[i] = 1, 9
	var pp *P
	if x == 3 {
		pp = &P{}
	}
	v := 0
	if pp != nil && tr(3) > 0 || tr(4) > 5 {
		v = 1
	}
	copy(mkS(tr(5)), mkS(tr(6)))
	return a[0]*100 + a[1]*10 + a[2], i + v, len(mkS(tr(7))) + cap(mkS(tr(8))[tr(1):])
}

func F6(x int) (r int) {
	defer func(a, b int) { r += a*10 + b }(tr(1), tr(2))
	for i := tr(3); i < tr(5); i += tr(1) {
		r += i
	}
	var ps [2]P
	ps[tr(0)].a, ps[tr(1)].b = tr(6), tr(7)
	return ps[0].a + ps[1].b + x
}
