package main

// Single-level array targets with an index that is out of range at run time: the right-hand side
// calls happen first, the panic when the assignment is carried out (correct on HEAD; the
// multi-level siblings are finding F20 in assign_target_order.go).

type W struct {
	n   int
	arr [3]int
}

var ga [4]int
var cnt int

func tr(k int) int {
	emit(9, k)
	cnt++
	return k
}

func rec(r *int) {
	if recover() != nil {
		*r = -1
	}
}

func idx(i, n int) int { return int(uint(i)%uint(n+2)) - 1 } // -1 .. n

func F1(i int) (r int) {
	defer rec(&r)
	var a [3]int
	a[idx(i, 3)] = tr(1)
	return a[0] + a[1] + a[2]
}

func F2(i int) (r int) {
	defer rec(&r)
	var a [3]int
	x := 0
	a[idx(i, 3)], x = tr(1), tr(2)
	return a[0] + a[1] + a[2] + x
}

func F3(i int) (r int) {
	defer rec(&r)
	ga[idx(i, 4)] = tr(3)
	ga[idx(i+1, 4)] += tr(4)
	return ga[0] + ga[3]
}

func F4(i int) (r int) {
	defer rec(&r)
	w := W{n: i}
	w.arr[idx(i, 3)] = tr(5)
	x := 1
	x, w.arr[idx(i+2, 3)] = tr(6), tr(7)
	return w.arr[0] + w.arr[2] + x
}

// without recover: the panic reaches the caller, the trace before it must be complete
func F5(i int) int {
	var a [2]int
	j := idx(i, 2)
	a[j] = tr(8)
	a[j] -= tr(1)
	return a[0] + a[1]
}
