package main

func F1(k int) (int, int, bool) {
	m := map[int]int{1: 10, 2: 20}
	m[k] += 5
	delete(m, 2)
	v, ok := m[2]
	return len(m), m[k] + v, ok
}

func F2(s string) map[string]int {
	m := map[string]int{}
	for _, w := range []string{"a", s, "b", s} {
		m[w]++
	}
	return m
}

// iteration: order-independent accumulation
func F3(n int) (int, int) {
	m := make(map[int]int)
	for i := 0; i < n&7; i++ {
		m[i*3] = i
	}
	sk, sv := 0, 0
	for k, v := range m {
		sk += k
		sv += v
	}
	return sk, sv
}

func F4(k int) int {
	var m map[int]int
	if k == 2 {
		m[1] = 2
	}
	return m[k] + len(m)
}

// closures capturing per-iteration variables
func F5(n int) []int {
	var fs []func() int
	for i := 0; i < n&3; i++ {
		fs = append(fs, func() int { i += 10; return i })
	}
	var out []int
	for _, f := range fs {
		out = append(out, f(), f())
	}
	return out
}

func F6(n int) int {
	acc := 0
	add := func(d int) func() int {
		return func() int { acc += d; return acc }
	}
	a, b := add(n), add(2)
	return a() + b() + a()
}

type pair struct {
	a [2]int
	s string
}

func F7(x, y int) (bool, bool) {
	p := pair{[2]int{x, y}, "k"}
	q := pair{[2]int{y, x}, "k"}
	arr := [3]int{x, y, x}
	return p == q, arr == [3]int{y, x, y}
}

func F8(n int) (r int) {
	var a [4]int
	for i, v := range a {
		a[(i+1)%4] = v + n
		r += v
	}
	s := a[:]
	for i, v := range s {
		s[(i+1)%4] = v + n
		r += v
	}
	for i := range n & 3 {
		n++
		r += i
	}
	return r + n
}

func fib(n int) int {
	if n < 2 {
		return n
	}
	return fib(n-1) + fib(n-2)
}

func F9(n int) int { return fib(n & 15) }
