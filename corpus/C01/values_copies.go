package main

type In struct {
	v [2]int
	p *int
}
type Out struct {
	a  In
	bs [2]In
	s  string
}

var gOut Out

// arrays and structs are values: assignment copies, also when nested
func F1(x int) (int, int, int) {
	a := [3]int{x, x + 1, x + 2}
	b := a
	b[0] = 100
	o := Out{a: In{v: [2]int{x, 1}}}
	o2 := o
	o2.a.v[1] = 50
	o2.bs[1].v[0] = 7
	pa := &o.a
	pa.v[0]++
	return a[0] + b[0], o.a.v[0]*1000 + o.a.v[1], o2.a.v[1] + o2.bs[1].v[0] + o.bs[1].v[0]
}

// pointer to array, address of nested fields and elements
func F2(x int) (int, int) {
	var arr [4]int
	p := &arr
	p[1] = x
	q := &p[2]
	*q = x * 2
	var o Out
	r := &o.bs[1].v[1]
	*r = 9
	s := p[1:3]
	s[0]++
	return arr[1] + arr[2], o.bs[1].v[1] + len(s) + cap(s)
}

// slices of structs, element field update through index
func F3(x int) (int, int) {
	ss := []In{{v: [2]int{1, 2}}, {v: [2]int{3, 4}}}
	ss[1].v[0] += x
	t := ss[0]
	t.v[0] = 99
	for i := range ss {
		ss[i].v[1] *= 2
	}
	for _, e := range ss {
		e.v[0] = -1
	}
	return ss[1].v[0] + ss[0].v[0], ss[0].v[1] + ss[1].v[1] + t.v[0]
}

// swaps through multi-assignment with index expressions
func F4(i, j int) ([3]int, int, int) {
	a := [3]int{10, 20, 30}
	i, j = int(uint(i)%3), int(uint(j)%3)
	a[i], a[j] = a[j], a[i]
	x, y := 1, 2
	x, y = y, x+y
	i, a[i] = 2, 5
	return a, x, y
}

// global struct modified through pointers; pointer fields alias
func F5(x int) (int, int) {
	gOut = Out{}
	v := x
	gOut.a.p = &v
	gOut.bs[0].p = gOut.a.p
	*gOut.bs[0].p += 5
	gOut.s = "q"
	cp := gOut
	*cp.a.p = 1
	return v, *gOut.a.p
}

// variadic functions, function values as arguments, method values
func sum(base int, xs ...int) int {
	for _, x := range xs {
		base += x
	}
	return base
}

func apply(f func(int) int, n int) int { return f(f(n)) }

type acc struct{ n int }

func (a *acc) add(d int) int { a.n += d; return a.n }
func (a acc) get(d int) int  { return a.n + d }

func F6(x int) (int, int, int, int) {
	a := acc{x}
	f := a.add
	g := a.get
	a.n = 100
	xs := []int{1, 2, 3}
	return sum(x), sum(x, 1, 2), sum(x, xs...), apply(f, 1) + g(0) + apply(func(v int) int { return v * x }, 2)
}

// if/switch with init statements, shadowing
func F7(x int) int {
	r := 0
	if x := x * 2; x > 4 {
		r += x
	} else if y := x + 1; y > 2 {
		r += y
	} else {
		r -= x + y
	}
	switch x := x & 3; {
	case x > 1:
		r += 10
		fallthrough
	case x == 0:
		r += 100
	default:
		x := 5
		r += x
	}
	{
		r := r + 1
		_ = r
	}
	return r
}

// overlapping copy and self-append
func F8(x int) ([]int, []int, int) {
	s := []int{1, 2, 3, 4, 5}
	n := copy(s[1:], s)
	t := append([]int(nil), s[:2]...)
	t = append(t, t...)
	u := make([]int, 2, 6)
	w := append(u, x)
	u = append(u, 7)
	return s, t, n + w[2] + len(u)
}
