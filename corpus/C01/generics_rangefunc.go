package main

type Num interface{ ~int | ~int8 | ~uint8 }

func Sum[T Num](xs []T) T {
	var s T
	for _, x := range xs {
		s += x
	}
	return s
}

func Map[T, U any](xs []T, f func(T) U) []U {
	var out []U
	for _, x := range xs {
		out = append(out, f(x))
	}
	return out
}

type Stack[T any] struct{ items []T }

func (s *Stack[T]) Push(x T) { s.items = append(s.items, x) }
func (s *Stack[T]) Pop() (T, bool) {
	var zero T
	if len(s.items) == 0 {
		return zero, false
	}
	x := s.items[len(s.items)-1]
	s.items = s.items[:len(s.items)-1]
	return x, true
}

func F1(a, b int, c int8) (int, int8, uint8) {
	return Sum([]int{a, b, 3}), Sum([]int8{c, c, 1}), Sum([]uint8{200, uint8(a)})
}

func F2(a int) []string {
	return Map([]int{a, a + 1}, func(x int) string { return string(rune('a' + x&7)) })
}

func F3(a int) (int, bool, string, bool) {
	var s Stack[int]
	s.Push(a)
	s.Push(a + 1)
	x, ok := s.Pop()
	var t Stack[string]
	y, ok2 := t.Pop()
	return x, ok, y, ok2
}

// range over function iterators
func count(n int) func(func(int) bool) {
	return func(yield func(int) bool) {
		for i := 0; i < n; i++ {
			emit(1, i)
			if !yield(i) {
				emit(2, i)
				return
			}
		}
	}
}

func pairs(xs []int) func(func(int, int) bool) {
	return func(yield func(int, int) bool) {
		for i, x := range xs {
			if !yield(i, x) {
				return
			}
		}
	}
}

func F4(n int) int {
	s := 0
	for i := range count(n & 7) {
		if i == 4 {
			break
		}
		if i == 1 {
			continue
		}
		s += i
	}
	return s
}

func F5(n int, xs []int) (r int) {
	defer func() { r += 1000 }()
	for i, x := range pairs(xs) {
		defer emit(3, i)
		if x == n {
			return i
		}
		r += x
	}
	return r
}

func F6(n int) int {
outer:
	for i := range count(3) {
		for j := range count(3) {
			if j == n&3 {
				continue outer
			}
			if i+j == 3 {
				break outer
			}
			emit(4, i*10+j)
		}
	}
	return n
}
