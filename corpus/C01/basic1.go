package main

var g int

type S struct{ a, b int }

func F1(x int, y int8, s []int) (int, bool) {
	var a [3]int
	p := &x
	if y > 0 {
		esc(p)
	}
	for i := 0; i < 3; i++ {
		a[i] = x + i
		x += int(y)
	}
	t := S{1, 2}
	t.a += a[1]
	switch x {
	case 1:
		g = 2
		fallthrough
	case 2:
		g++
	default:
		emit(1, x)
	}
	f := func(z int) int { x++; return z + x }
	s = append(s, 1, 2)
	for i, v := range s {
		x += i * v
	}
	for i := range 3 {
		x += i
	}
	return f(3) + len(s) + t.a, x > 0 && y < 3
}

var gp *int

func esc(p *int) { gp = p }

func F2(n int) int {
	i := 0
L:
	if i < n&7 {
		i++
		if i == 2 {
			goto L
		}
		emit(0, i)
		goto L
	}
outer:
	for j := 0; j < 3; j++ {
		for k := range 3 {
			if k == j {
				continue outer
			}
			if k > j {
				break outer
			}
			i += k
		}
	}
	return i
}

func F3(a, b int, u uint8) (int, int, uint8, int32) {
	return a / b, a % b, u << (u & 7) >> 1, int32(a) * int32(b)
}

func F4(p *int, q *S, s []int) int {
	*p += 2
	q.b = *p
	s[1] = q.a
	return len(s) + cap(s)
}

func F5(s string, i int) (int, string, byte) {
	n := 0
	for j, c := range s {
		n += j * int(c)
	}
	return n, s[1:] + "x", s[i]
}
