package main

// A short variable declaration that mixes a NEW variable with an already declared, non-zero
// struct/array variable whose right-hand side is an empty / sparse / partially keyed composite
// literal: the literal replaces the whole old value (omitted fields and elements become zero).

type T struct {
	a, b int
	c    [2]int
}

type U struct {
	t T
	s string
}

func esc(p *T) { p.b++ }

func F1(n int) int {
	t := T{a: 1000, b: 300, c: [2]int{20, 7}}
	arr := [3]int{100, 200, 300}
	t.a += n
	arr[0] += n
	t, k := T{}, n
	arr, ok := [3]int{1: n}, n > 0
	r := t.a + t.b + t.c[0] + t.c[1] + arr[0] + arr[1]*5 + arr[2] + k
	if ok {
		r++
	}
	return r
}

// the redeclared variable lives in memory (address taken)
func F2(n int) (int, int) {
	t := T{a: n, b: 5, c: [2]int{n, n}}
	esc(&t)
	t, k := T{b: n}, t.a
	u := U{t: T{a: 9, b: 9, c: [2]int{9, 9}}, s: "x"}
	u, m := U{t: T{c: [2]int{1: n}}}, len(u.s)
	return t.a*1000 + t.b*100 + t.c[0]*10 + t.c[1] + k, u.t.a + u.t.b + u.t.c[0] + u.t.c[1]*3 + len(u.s) + m
}

// arrays of structs, slices of structs, nested empty literals, in a loop
func F3(n int) (r int) {
	ps := [2]T{{a: 1, b: 2}, {a: 3, b: 4, c: [2]int{5, 6}}}
	ss := []T{{a: 7, b: 8}}
	for i := 0; i < 2; i++ {
		ps[i].a += n
		ps, j := [2]T{1: {b: i}}, i
		ss, l := []T{{}, {c: [2]int{n}}}, len(ss)
		r += ps[0].a + ps[0].b + ps[1].a + ps[1].b + ps[1].c[1] + j + l
		r += ss[0].a + ss[0].b + ss[1].c[0] + ss[1].c[1] + len(ss)
	}
	return r + ps[0].a + ss[0].a
}
