package main

type B struct {
	a int
	_ int
	s string
}

func rec(r *int) {
	if recover() != nil {
		*r = -1
	}
}

// comparisons: blank fields are ignored, interfaces compare dynamic type then value,
// uncomparable dynamic types panic
func F1(x int) (r int) {
	defer rec(&r)
	p, q := B{1, 2, "s"}, B{1, x, "s"}
	if p == q {
		r += 1
	}
	var i, j any = x, int8(x)
	if i == j {
		r += 10
	}
	j = x
	if i == j {
		r += 100
	}
	var e1, e2 any = [2]string{"a", "b"}, [2]string{"a", "b"}
	if e1 == e2 {
		r += 1000
	}
	if x&3 == 1 {
		var s1, s2 any = []int{1}, []int{1}
		if s1 == s2 {
			r += 5
		}
	}
	if x&3 == 2 {
		m := map[any]int{}
		m[[]int{1}] = 2
	}
	return r
}

// recursive and mutually recursive closures
func F2(n int) (int, int) {
	var fact func(int) int
	fact = func(k int) int {
		if k <= 1 {
			return 1
		}
		return k * fact(k-1)
	}
	var even, odd func(int) bool
	even = func(k int) bool { return k == 0 || odd(k-1) }
	odd = func(k int) bool { return k != 0 && even(k-1) }
	c := 0
	if even(n & 7) {
		c = 1
	}
	return fact(n & 7), c
}

type Inner struct{ v int }

func (i *Inner) Bump() int { i.v++; return i.v }
func (i Inner) Get() int   { return i.v }

type Mid struct{ *Inner }
type Top struct {
	Mid
	n int
}

type Getter interface{ Get() int }
type Holder struct {
	Getter
	k int
}

// promoted methods through embedded pointers and embedded interfaces, method expressions
func F3(x int) (r int) {
	defer rec(&r)
	t := Top{Mid{&Inner{x}}, 1}
	t.Bump()
	f := (*Inner).Bump
	g := Top.Get
	h := Holder{Getter: t, k: 2}
	r = f(t.Inner) + g(t) + h.Get()
	var e Top
	if x == 2 {
		r += e.Get()
	}
	return r
}

// len/cap of nil array pointers, clear, min/max
func F4(x int) (int, int, int) {
	var p *[3]int
	m := map[int]int{1: 1, 2: 2}
	s := []int{1, 2, 3}
	clear(s[1:])
	if x > 2 {
		clear(m)
	}
	n := 0
	for i := range p {
		n += i
	}
	return len(p) + cap(p) + n, len(m) + s[0] + s[1] + s[2], min(x, 3, len(s)) + max(x, -1)
}

// range over typed integers and with existing variables / lvalues as iteration variables
func F5(x int) (int, int, [3]int) {
	var a [3]int
	var i int
	n := 0
	for j := range uint8(x & 3) {
		n += int(j)
	}
	for k := range int8(3) {
		n += int(k) * 10
	}
	s := []int{5, 6, 7}
	for i, a[i] = range s {
	}
	for i = range 2 {
	}
	return n, i, a
}

// labelled continue in range over string, goto into the middle of deferred pushes
func F6(s string, x int) (r int) {
	k := 0
outer:
	for i, c := range s {
		for j := 0; j < 2; j++ {
			if c == 'a' {
				continue outer
			}
			r += i + j
		}
	}
again:
	defer func(v int) { r += v }(k)
	k++
	if k < x&3 {
		goto again
	}
	return r
}

// conversions between named types, typed constant shifts
type MyInt int16
type MyStr string
type MyBytes []byte

func F7(x int, s string) (MyInt, MyStr, int64, uint8, int) {
	var sh uint = uint(x) & 15
	var a int64 = 1 << sh
	b := uint8(1) << sh >> sh
	c := 1<<sh == 0
	n := 0
	if c {
		n = 1
	}
	mb := MyBytes(s)
	ms := MyStr(mb) + MyStr(rune(x&127))
	return MyInt(x) * MyInt(x), ms, a, b, n + len(mb)
}
