package main

type Shape interface {
	Area() int
	Name() string
}

type Sq struct{ s int }
type Rect struct{ w, h int }
type Named int

func (q Sq) Area() int      { return q.s * q.s }
func (q Sq) Name() string   { return "sq" }
func (r *Rect) Area() int   { return r.w * r.h }
func (r *Rect) Name() string { return "rect" }
func (r *Rect) Grow(d int)  { r.w += d; r.h += d }
func (n Named) Area() int   { return int(n) }
func (n Named) Name() string { return "named" }

func pick(k int) Shape {
	switch k & 3 {
	case 0:
		return Sq{k}
	case 1:
		return &Rect{k, 2}
	case 2:
		return Named(k)
	}
	return nil
}

func F1(k int) (int, string) {
	s := pick(k)
	if s == nil {
		return -1, ""
	}
	return s.Area(), s.Name()
}

func F2(k int) int {
	var x any = pick(k)
	switch v := x.(type) {
	case Sq:
		return v.s
	case *Rect:
		v.Grow(1)
		return v.Area()
	case nil:
		return -5
	case Shape:
		return v.Area() + 1000
	default:
		return -9
	}
}

func F3(k int) (int, bool) {
	s := pick(k)
	q, ok := s.(Sq)
	return q.s, ok
}

// failed assertion panics; invoking on a nil interface panics
func F4(k int) int {
	s := pick(k)
	return s.(*Rect).w + s.Area()
}

// method values and method expressions
func F5(k int) int {
	r := &Rect{k, 3}
	f := r.Area
	r.Grow(2)
	g := (*Rect).Area
	h := Sq.Area
	return f() + g(r) + h(Sq{k})
}

// interface holding comparable values: equality
func F6(a, b int) (bool, bool) {
	var x, y any = a, b
	var z any = Named(a)
	return x == y, x == z
}

// embedded struct and promoted method through a pointer
type Wrap struct {
	Rect
	tag string
}

func F7(k int) (int, string) {
	w := Wrap{Rect{k, k + 1}, "t"}
	w.Grow(1)
	var s Shape = &w
	return s.Area(), s.Name() + w.tag
}

type errT struct{ code int }

func (e errT) Error() string { return "E" }

func fail(k int) error {
	if k > 2 {
		return errT{k}
	}
	return nil
}

func F8(k int) (int, string) {
	err := fail(k)
	if err != nil {
		if e, ok := err.(errT); ok {
			return e.code, err.Error()
		}
	}
	return 0, ""
}
