package main

type Celsius int32
type Flag uint8

const (
	A Flag = 1 << iota
	B
	C
)

func F1(a int8, b uint8, c int32, d uint16) (int8, uint8, int32, uint16, int64) {
	a += 100
	b -= 200
	c *= 65537
	d <<= 3
	return a, b, c, d, int64(a)*int64(b) + int64(int8(b)) - int64(uint16(c))
}

func F2(x, y int) (int, int, int, int, int) {
	y |= 1
	return x / y, x % y, -x / y, x >> 1, int(uint(x) >> 1)
}

func F3(x int, s uint) (int, int32, uint8, int) {
	return x << (s & 127), int32(x) << (s & 63), uint8(x) >> (s & 15), x >> (s & 127)
}

func F4(f Flag, t Celsius) (Flag, bool, Celsius, int) {
	f |= B
	f &^= A
	t = -t + Celsius(f)
	return f ^ C, f&B != 0, t % 7, int(^f)
}

func F5(s string, i int) (string, int, byte, string) {
	r := []rune(s)
	n := 0
	for i, c := range s {
		n += i + int(c)
	}
	t := ""
	for j := len(r) - 1; j >= 0; j-- {
		t += string(r[j])
	}
	bs := []byte(s)
	for k := range bs {
		bs[k] ^= 1
	}
	var b byte
	if len(s) > 0 {
		b = s[uint(i)%uint(len(s))]
	}
	return t, n + len(r), b, string(bs) + s[len(s)/2:]
}

func F6(a, b string) (bool, bool, bool, int) {
	k := 0
	switch {
	case a < b:
		k = 1
	case a == b:
		k = 2
	}
	return a+b == b+a, a <= b, a[:len(a)/2] > b, k
}

func F7(x int) (int, uint, int8) {
	const big = 1 << 40
	y := x&0xff + big>>38
	return min(x, y, 3), max(uint(y), 2), int8(max(x, -128))
}

func F8(x int) (r int) {
	for i := uint8(250); i != 2; i++ {
		r++
	}
	for j := int8(125); j > 0; j++ {
		r += 2
	}
	return r + x
}
