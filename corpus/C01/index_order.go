package main

// Operand evaluation order of an index expression whose operand is an array value or a string:
// the calls in x()[i()] happen in lexical left-to-right order (Go spec, "Order of evaluation").

func tr(k int) int {
	emit(9, k)
	return k
}

func arr() [3]int {
	emit(1, 0)
	return [3]int{5, 6, 7}
}

func str() string {
	emit(2, 0)
	return "abc"
}

func F1(i int) int { return arr()[tr(i&1)] }

func F2(i int) byte { return str()[tr(i&1)] }

func F3(i int) int { return [2]int{tr(6), tr(1)}[tr(i&1)] }
