package main

type V struct{ n int }

func (v V) Show(k int)  { emit(k, v.n) }
func (v *V) Inc(d int)  { v.n += d }

type Ifc interface{ Show(k int) }

// receivers and arguments of deferred calls are evaluated at the defer statement
func F1(x int) int {
	v := V{x}
	defer v.Show(1)
	p := &v
	defer p.Show(2)
	defer p.Inc(tr(3))
	var i Ifc = v
	defer i.Show(4)
	v.n = 100
	f := v.Show
	v.n = 200
	defer f(5)
	return v.n
}

func tr(k int) int {
	emit(9, k)
	return k
}

// binding a method value of a nil interface / nil pointer
func F2(x int) (r int) {
	defer func() {
		if recover() != nil {
			r = -1
		}
	}()
	var i Ifc
	if x > 2 {
		i = V{x}
	}
	emit(0, x)
	f := i.Show
	emit(1, x)
	f(2)
	return 1
}

func F3(x int) (r int) {
	defer func() {
		if recover() != nil {
			r = -1
		}
	}()
	var p *V
	if x > 2 {
		p = &V{x}
	}
	f := p.Show
	emit(1, x)
	f(2)
	g := p.Inc
	g(1)
	return p.n
}

// per-iteration loop variables with continue, closures and defers
func F4(n int) (r int) {
	var fs []func() int
	for i := 0; i < 4; i++ {
		defer func() { emit(3, i) }()
		if i == n&3 {
			i++
			continue
		}
		fs = append(fs, func() int { i *= 2; return i })
	}
	for _, f := range fs {
		r = r*10 + f()
	}
	return r
}

// goto out of nested loops whose variables are captured
func F5(n int) (r int) {
	var fs []func() int
	for i := 0; i < 3; i++ {
		for j := range 3 {
			fs = append(fs, func() int { return i*10 + j })
			if i+j == n&3 {
				goto done
			}
		}
	}
done:
	for _, f := range fs {
		r += f()
	}
	return r + len(fs)*1000
}

func iter(n int) func(func(int) bool) {
	return func(yield func(int) bool) {
		for i := 0; i < n; i++ {
			if !yield(i) {
				return
			}
		}
	}
}

// closures over range-over-func variables; return from inside the body with named result
func F6(n int) (r int, s string) {
	var fs []func() int
	for i := range iter(4) {
		fs = append(fs, func() int { return i })
		if i == n&3 {
			s = "early"
			for _, f := range fs {
				r += f() + 1
			}
			return r, s
		}
	}
	return -1, "late"
}

// range over array pointer, nil array pointer with index only, string modified in the body
func F7(n int) (r int) {
	a := [3]int{1, 2, 3}
	for i, v := range &a {
		a[2] = 10
		r += i * v
	}
	var np *[3]int
	for i := range np {
		r += i
	}
	s := "abc"
	for i, c := range s {
		s = "zz"
		r += i + int(c)
	}
	return r + len(s) + n
}

// switch fallthrough into default in the middle, break in nested switch inside loop
func F8(n int) (r int) {
	for i := 0; i < 4; i++ {
		switch {
		case i == n&3:
			r += 1
			fallthrough
		default:
			r += 10
			if i == 2 {
				break
			}
			r += 100
		case i == 3:
			r += 1000
			switch n & 1 {
			case 1:
				continue
			}
			r += 5
		}
		r *= 2
	}
	return r
}
