package main

// Targets of assignments that need more than one level of indexing / indirection.
// The compiled program evaluates the right-hand side (and all index operands) first and panics when
// the assignment is carried out; go/ir performs the inner levels eagerly (only the outermost
// IndexAddr/FieldAddr/Store is delayed, see the comment on lazyAddress in builder.go), so an
// out-of-range inner index or a nil inner pointer panics BEFORE the right-hand side calls.
// F2 and F3 (one level) agree; F1, F4, F5, F6 are the recorded finding F20.

type Q struct {
	f, g int
	arr  [2]int
}

func tr(k int) int {
	emit(9, k)
	return k
}

func rec(r *int) {
	if recover() != nil {
		*r = -1
	}
}

func F1(i int) (r int) {
	defer rec(&r)
	var a [2][2]int
	a[tr(i&3)][tr(1)] = tr(2)
	return a[1][1]
}

func F2(i int) (r int) {
	defer rec(&r)
	var q *Q
	if i > 2 {
		q = &Q{}
	}
	q.g = tr(2)
	return q.g
}

func F3(i int) (r int) {
	defer rec(&r)
	var pa *[2]int
	if i > 2 {
		pa = new([2]int)
	}
	pa[tr(0)] = tr(3)
	return pa[0]
}

func F4(i int) (r int) {
	defer rec(&r)
	ss := make([]Q, 2)
	ss[tr(i&3)].f = tr(1)
	return ss[0].f + ss[1].f
}

func F5(i int) (r int) {
	defer rec(&r)
	var q *Q
	if i > 2 {
		q = &Q{}
	}
	q.arr[tr(1)] = tr(2)
	return q.arr[1]
}

func F6(i int) (r int) {
	defer rec(&r)
	var pp **int
	if i > 2 {
		p := new(int)
		pp = &p
	}
	**pp = tr(1)
	return **pp
}
