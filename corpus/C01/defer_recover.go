package main

var g int

func mayPanic(x int) int {
	if x == 3 {
		panic(7)
	}
	if x == 4 {
		var p *int
		return *p
	}
	return 10 / x
}

// named results modified by a deferred closure after recovery
func F1(x int) (r int, s string) {
	defer func() {
		if e := recover(); e != nil {
			r = -1
			s = "rec"
			emit(1, r)
		}
	}()
	r = mayPanic(x)
	s = "ok"
	return r + 1, s
}

// several defers run in LIFO order, arguments evaluated at defer time
func F2(x int) int {
	for i := 0; i < 3; i++ {
		defer emit(2, i+x)
	}
	x += 10
	defer emit(3, x)
	return x
}

// a deferred call changes the named result on the normal path
func F3(x int) (r int) {
	defer func() { r *= 2 }()
	r = x + 1
	return r + 1
}

// panic in a deferred function replaces the first panic; recover in an outer frame
func inner(x int) {
	defer func() {
		emit(4, x)
		if x == 1 {
			panic("second")
		}
	}()
	if x >= 0 {
		panic("first")
	}
}

func F4(x int) (s string) {
	defer func() {
		if e := recover(); e != nil {
			if str, ok := e.(string); ok {
				s = str
			}
		}
	}()
	inner(x)
	return "none"
}

// recover() not called directly by the deferred function has no effect
func helper() any { return recover() }

func F5(x int) (r int) {
	defer func() {
		if helper() != nil {
			r = 99
		}
	}()
	r = mayPanic(x)
	return
}

// no recover block: recovered function without named results returns zero values
func F6(x int) int {
	defer func() { recover() }()
	return mayPanic(x) + 5
}

// defer in a loop with a closure capturing the per-iteration variable; re-panic after recovery
func F7(n int) (r int) {
	defer func() {
		e := recover()
		emit(5, r)
		if n == 5 {
			panic(e)
		}
	}()
	for i := 0; i < n&3; i++ {
		defer func() { r += i }()
	}
	g = n
	if n > 4 {
		panic(n)
	}
	return 100
}

// runtime panic inside a callee unwinds through a frame with defers but without recover
func mid(x int) int {
	defer emit(6, x)
	return mayPanic(x) + 1
}

func F8(x int) (r int) {
	defer func() {
		if recover() != nil {
			r = -2
		}
	}()
	return mid(x) + mid(x+1)
}
